//! Shared body of the libFuzzer targets: one entry function, no state carried between iterations
//! (typstyle has none; the harness' context is immutable after initialisation), the semantic oracle
//! of the property named by VERIF_PROP inside the target.
//!
//! A violation is written to $VERIF_FUZZ_OUT/viol-<pid>.json (case + signature) and the process
//! aborts, so libFuzzer saves the input; failures that belong to a listed known finding are skipped
//! (otherwise a campaign rediscovers one finding forever) unless VERIF_FUZZ_STRICT=1.

#[path = "../../vcheck/src/fmtimpl.rs"]
#[allow(dead_code)]
pub mod fmtimpl;

use std::path::PathBuf;
use std::sync::OnceLock;

use vlib::corpus::Corpus;
use vlib::engine::{Env, Prop, Stats, Tier, Verdict};
use vlib::known::Known;
use vlib::props::{SrcProp, Which};
use vlib::props2::C05;

pub struct Ctx {
    pub prop: String,
    pub corpus: Corpus,
    pub known: Known,
    pub real: fmtimpl::Real,
    pub out: PathBuf,
    pub strict: bool,
}

pub fn ctx() -> &'static Ctx {
    static C: OnceLock<Ctx> = OnceLock::new();
    C.get_or_init(|| {
        fmtimpl::install_panic_hook();
        let root = PathBuf::from(std::env::var("VERIF_ROOT").unwrap_or_else(|_| "/verif".into()));
        let prop = std::env::var("VERIF_PROP").unwrap_or_else(|_| "C04".into());
        Ctx {
            corpus: Corpus::load(&root.join("corpus")),
            known: Known::load(&root.join("KNOWN_FINDINGS.txt")),
            // deep recursion on libFuzzer's own thread would be a stack overflow of the harness, not a finding
            real: fmtimpl::Real { stack: std::env::var("VERIF_FUZZ_STACK").ok().and_then(|s| s.parse::<usize>().ok()).map(|mb| mb << 20) },
            out: PathBuf::from(std::env::var("VERIF_FUZZ_OUT").unwrap_or_else(|_| ".".into())),
            strict: std::env::var("VERIF_FUZZ_STRICT").is_ok_and(|v| v == "1"),
            prop,
        }
    })
}

pub fn which(id: &str) -> Option<Which> {
    Some(match id {
        "C01" => Which::C01,
        "C03" => Which::C03,
        "C04" => Which::C04,
        "C06" => Which::C06,
        "C07" => Which::C07,
        "C08" => Which::C08,
        "C09" => Which::C09,
        "C10" => Which::C10,
        "C11" => Which::C11,
        "C12" => Which::C12,
        "C13" => Which::C13,
        "C19" => Which::C19,
        _ => return None,
    })
}

pub fn env(c: &'static Ctx) -> Env<'static> {
    Env {
        f: &c.real,
        corpus: &c.corpus,
        tier: Tier::Thorough,
        known: &c.known,
        strict: c.strict,
        seed: 0,
        scratch: c.out.clone(),
        cli: None,
        exe: PathBuf::new(),
    }
}

fn report(prop: &str, case: serde_json::Value, sig: &str, detail: &str) -> ! {
    let c = ctx();
    let v = serde_json::json!({"property": prop, "case": case, "sig": sig, "detail": detail, "origin": "libfuzzer", "expect": "pass"});
    let path = c.out.join(format!("viol-{}.json", std::process::id()));
    let _ = std::fs::write(&path, serde_json::to_vec_pretty(&v).unwrap_or_default());
    eprintln!("VERIF-FUZZ-VIOLATION {} {}", sig, path.display());
    std::process::abort();
}

/// Evaluate one case of a property with the engine's own `excluded` + `check`.
pub fn run<P: Prop>(p: &P, case: &P::Case) {
    let c = ctx();
    let e = env(c);
    // known findings as in the engine (vlib::engine::eval): precise + frequent ones are excluded up front;
    // otherwise the oracle runs, and a failing case that contains a trigger is shrunk and looked at again
    if !c.strict && p.excluded_up_front(case, &e).is_some() {
        return;
    }
    let mut st = Stats::default();
    if let Verdict::Fail(f) = p.check(case, &e, &mut st) {
        if !c.strict && p.excluded(case, &e).is_some() {
            let sig = f.sig.clone();
            let mut budget = 1500u32;
            let mut fails = |cand: &P::Case| -> bool {
                if budget == 0 {
                    return false;
                }
                budget -= 1;
                let mut sc = Stats::default();
                matches!(p.check(cand, &e, &mut sc), Verdict::Fail(f2) if f2.sig == sig)
            };
            let reduced = p.reduce(case, &e, &mut fails);
            if p.excluded(&reduced, &e).is_some() {
                return;
            }
            report(p.id(), serde_json::to_value(&reduced).unwrap_or_default(), &f.sig, &f.detail);
        }
        report(p.id(), serde_json::to_value(case).unwrap_or_default(), &f.sig, &f.detail);
    }
}

pub fn run_src_bytes(data: &[u8]) {
    let c = ctx();
    if c.prop == "C05" {
        if let Some(case) = vlib::fuzzdec::tot_case(data) {
            if case.src.len() <= 16 * 1024 {
                run(&C05, &case);
            }
        }
        return;
    }
    let Some(w) = which(&c.prop) else { return };
    let Some(mut case) = vlib::fuzzdec::src_case(data, w == Which::C13) else { return };
    // import reordering is part of the configuration space of C01, C03, C04 and C11 only (C19 tests it
    // itself; for the other oracles the order of import items is not theirs to judge)
    if !matches!(w, Which::C01 | Which::C03 | Which::C04 | Which::C11) {
        case.cfg.reorder = false;
    }
    if case.src.len() > 16 * 1024 {
        return;
    }
    // the formatter properties quantify over well-formed text (C13 also over erroneous text)
    if w != Which::C13 && !vlib::syn::wf(&case.src) {
        return;
    }
    run(&SrcProp { which: w }, &case);
}

pub fn run_tape_bytes(data: &[u8]) {
    let c = ctx();
    let e = env(c);
    let mut st = Stats::default();
    let mut t = vlib::tape::Tape::new(data);
    if c.prop == "C05" {
        if let Some(case) = C05.decode(&mut t, &e, &mut st) {
            run(&C05, &case);
        }
        return;
    }
    let Some(w) = which(&c.prop) else { return };
    let p = SrcProp { which: w };
    if let Some(case) = p.decode(&mut t, &e, &mut st) {
        run(&p, &case);
    }
}
