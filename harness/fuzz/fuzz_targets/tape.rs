#![no_main]
//! Structure-aware target: the bytes are the tape of the property's own generators (G0/G1/G2 + config),
//! so coverage feedback steers the same case space the proptest engine samples blindly.
mod common;
libfuzzer_sys::fuzz_target!(|data: &[u8]| {
    common::run_tape_bytes(data);
});
