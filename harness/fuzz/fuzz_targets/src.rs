#![no_main]
//! Byte-level target: 3 config bytes (+4 range bytes for C13) + UTF-8 source text.
mod common;
libfuzzer_sys::fuzz_target!(|data: &[u8]| {
    common::run_src_bytes(data);
});
