//! Small helpers around typst-syntax shared by generators and oracles.

pub use typst_syntax::{ast, LinkedNode, SyntaxKind as K, SyntaxNode};

/// Parse a text exactly like typstyle does (`Source::detached(..).root()`), minus span numbering.
pub fn parse(text: &str) -> SyntaxNode {
    typst_syntax::parse(text)
}

/// Well-formed = Typst's own parser reports no syntax error anywhere in the tree.
pub fn wf(text: &str) -> bool {
    !parse(text).erroneous()
}

pub fn is_nl(c: char) -> bool {
    typst_syntax::is_newline(c)
}

pub fn has_nl(s: &str) -> bool {
    s.chars().any(is_nl)
}

/// Number of line breaks the way Typst counts them (CRLF once).
pub fn count_nl(s: &str) -> usize {
    let mut n = 0;
    let mut it = s.chars().peekable();
    while let Some(c) = it.next() {
        if is_nl(c) {
            if c == '\r' && it.peek() == Some(&'\n') {
                it.next();
            }
            n += 1;
        }
    }
    n
}

pub fn is_comment(k: K) -> bool {
    matches!(k, K::LineComment | K::BlockComment)
}

pub fn is_leaf(n: &SyntaxNode) -> bool {
    n.children().len() == 0
}

/// Full source text of a node.
pub fn text_of(n: &SyntaxNode) -> String {
    n.clone().into_text().to_string()
}

/// Pre-order list of all nodes with byte ranges, depth and parent kind.
pub struct Flat<'a> {
    pub node: &'a SyntaxNode,
    pub start: usize,
    pub end: usize,
    pub depth: usize,
    pub parent: Option<K>,
    /// index of the parent entry in the flat list
    pub parent_idx: Option<usize>,
}

pub fn flatten(root: &SyntaxNode) -> Vec<Flat<'_>> {
    fn rec<'a>(
        n: &'a SyntaxNode,
        off: usize,
        depth: usize,
        parent: Option<K>,
        parent_idx: Option<usize>,
        out: &mut Vec<Flat<'a>>,
    ) {
        let me = out.len();
        out.push(Flat { node: n, start: off, end: off + n.len(), depth, parent, parent_idx });
        let mut o = off;
        for c in n.children() {
            rec(c, o, depth + 1, Some(n.kind()), Some(me), out);
            o += c.len();
        }
    }
    let mut out = vec![];
    rec(root, 0, 0, None, None, &mut out);
    out
}

pub fn max_depth(root: &SyntaxNode) -> usize {
    fn rec(n: &SyntaxNode) -> usize {
        1 + n.children().map(rec).max().unwrap_or(0)
    }
    rec(root)
}

pub fn count_nodes(root: &SyntaxNode) -> usize {
    1 + root.children().map(count_nodes).sum::<usize>()
}

pub fn count_inner(root: &SyntaxNode) -> usize {
    if is_leaf(root) {
        0
    } else {
        1 + root.children().map(count_inner).sum::<usize>()
    }
}

pub fn any_node(root: &SyntaxNode, f: &mut dyn FnMut(&SyntaxNode) -> bool) -> bool {
    if f(root) {
        return true;
    }
    root.children().any(|c| any_node(c, f))
}

/// 64-bit FNV-1a, used for "distinct" counting and seeds (stable across runs and platforms).
pub fn fnv64(bytes: &[u8]) -> u64 {
    let mut h: u64 = 0xcbf29ce484222325;
    for b in bytes {
        h ^= *b as u64;
        h = h.wrapping_mul(0x100000001b3);
    }
    h
}

pub fn splitmix64(mut x: u64) -> u64 {
    x = x.wrapping_add(0x9E3779B97F4A7C15);
    let mut z = x;
    z = (z ^ (z >> 30)).wrapping_mul(0xBF58476D1CE4E5B9);
    z = (z ^ (z >> 27)).wrapping_mul(0x94D049BB133111EB);
    z ^ (z >> 31)
}

/// Truncate on a char boundary for samples / messages.
pub fn clip(s: &str, max: usize) -> String {
    if s.len() <= max {
        return s.to_string();
    }
    let mut e = max;
    while !s.is_char_boundary(e) {
        e -= 1;
    }
    format!("{}…[+{} bytes]", &s[..e], s.len() - e)
}
