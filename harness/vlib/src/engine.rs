//! The engine: proptest-driven tape decoding in worker processes, a supervisor that merges
//! their results, shrinks nothing itself (workers shrink), writes evidence and replay files.

use std::collections::{BTreeMap, HashSet};
use std::io::Write;
use std::path::{Path, PathBuf};
use std::time::Instant;

use proptest::test_runner::{Config as PtConfig, RngSeed, TestCaseError, TestError, TestRunner};
use serde::{de::DeserializeOwned, Deserialize, Serialize};
use serde_json::{json, Value};

use crate::api::Formatter;
use crate::corpus::Corpus;
use crate::known::Known;
use crate::syn;
use crate::tape::Tape;

#[derive(Clone, Copy, PartialEq, Eq, Debug)]
pub enum Tier {
    Quick,
    Thorough,
}

impl Tier {
    pub fn parse(s: &str) -> Option<Tier> {
        match s {
            "quick" => Some(Tier::Quick),
            "thorough" => Some(Tier::Thorough),
            _ => None,
        }
    }
    pub fn name(self) -> &'static str {
        match self {
            Tier::Quick => "quick",
            Tier::Thorough => "thorough",
        }
    }
}

pub struct Env<'a> {
    pub f: &'a dyn Formatter,
    pub corpus: &'a Corpus,
    pub tier: Tier,
    pub known: &'a Known,
    /// replay / regress mode: no known-finding exclusion
    pub strict: bool,
    pub seed: u64,
    /// scratch directory private to this process (CLI properties)
    pub scratch: PathBuf,
    /// path of the typstyle CLI binary built from /repo (CLI properties), if built
    pub cli: Option<PathBuf>,
    /// path of this executable (for fresh-process references, C17/C05)
    pub exe: PathBuf,
}

#[derive(Clone, Debug, Serialize, Deserialize)]
pub struct Failure {
    /// names the kind of difference and where it occurs; used for bucketing and for shrinking
    /// towards the same failure
    pub sig: String,
    pub detail: String,
}

pub enum Verdict {
    Pass { nontrivial: bool },
    /// precondition of this oracle does not hold (deferred to another property, excluded, ...)
    Skip(String),
    Fail(Failure),
}

impl Verdict {
    pub fn fail(sig: impl Into<String>, detail: impl Into<String>) -> Verdict {
        Verdict::Fail(Failure { sig: sig.into(), detail: detail.into() })
    }
    pub fn skip(why: impl Into<String>) -> Verdict {
        Verdict::Skip(why.into())
    }
}

#[derive(Default, Serialize, Deserialize)]
pub struct Stats {
    /// cases on which the oracle was evaluated
    pub evaluations: u64,
    /// tapes decoded (generated part only)
    pub generated: u64,
    /// sweep cases (deterministic part)
    pub swept: u64,
    /// generated text the parser rejected (the only rejection reason)
    pub rejected: u64,
    pub skipped: BTreeMap<String, u64>,
    pub labels: BTreeMap<String, u64>,
    pub nontrivial: u64,
    #[serde(skip)]
    pub nt_hashes: HashSet<u64>,
    pub samples: Vec<Value>,
    /// survey mode: sig -> (count, smallest example, detail)
    pub failures: BTreeMap<String, (u64, Value, String)>,
    /// free-form numeric extras a property wants in the evidence (max ratios etc.)
    pub extra: BTreeMap<String, f64>,
}

impl Stats {
    pub fn label(&mut self, l: &str) {
        *self.labels.entry(l.to_string()).or_insert(0) += 1;
    }
    pub fn label_if(&mut self, cond: bool, l: &str) {
        if cond {
            self.label(l);
        }
    }
    pub fn skip(&mut self, why: &str) {
        *self.skipped.entry(why.to_string()).or_insert(0) += 1;
    }
    pub fn max_extra(&mut self, k: &str, v: f64) {
        let e = self.extra.entry(k.to_string()).or_insert(f64::MIN);
        if v > *e {
            *e = v;
        }
    }
    fn merge(&mut self, o: Stats) {
        self.evaluations += o.evaluations;
        self.generated += o.generated;
        self.swept += o.swept;
        self.rejected += o.rejected;
        self.nontrivial += o.nontrivial;
        for (k, v) in o.skipped {
            *self.skipped.entry(k).or_insert(0) += v;
        }
        for (k, v) in o.labels {
            *self.labels.entry(k).or_insert(0) += v;
        }
        for (k, v) in o.extra {
            if k.starts_with("audit:") {
                *self.extra.entry(k).or_insert(0.0) += v;
            } else {
                self.max_extra(&k, v);
            }
        }
        for (k, (n, ex, d)) in o.failures {
            let e = self.failures.entry(k).or_insert((0, ex.clone(), d.clone()));
            e.0 += n;
            if ex.to_string().len() < e.1.to_string().len() {
                e.1 = ex;
                e.2 = d;
            }
        }
        self.samples.extend(o.samples);
    }
}

pub trait Prop: Sync {
    type Case: Serialize + DeserializeOwned + Clone;

    fn id(&self) -> &'static str;
    /// how cases are generated and what makes one non-trivial (goes into the evidence)
    fn rule(&self) -> String;
    fn assumptions(&self) -> Vec<String> {
        vec![]
    }
    /// deterministic part (G0 sweep etc.)
    fn sweep_len(&self, _env: &Env) -> usize {
        0
    }
    fn sweep_case(&self, _i: usize, _env: &Env) -> Option<Self::Case> {
        None
    }
    /// number of generated cases per run (all workers together)
    fn gen_cases(&self, tier: Tier) -> u64;
    fn tape_max(&self) -> usize {
        768
    }
    fn decode(&self, t: &mut Tape, env: &Env, st: &mut Stats) -> Option<Self::Case>;
    /// id of an active known finding whose trigger this case contains (then it is not evaluated)
    fn excluded(&self, _c: &Self::Case, _env: &Env) -> Option<String> {
        None
    }
    /// subset of `excluded` that is applied BEFORE the oracle (findings whose trigger is precise and
    /// frequent: excluded by construction). The other findings are applied only to failing cases,
    /// after shrinking: see `eval`.
    fn excluded_up_front(&self, _c: &Self::Case, _env: &Env) -> Option<String> {
        None
    }
    fn check(&self, c: &Self::Case, env: &Env, st: &mut Stats) -> Verdict;
    /// source-level reduction; `fails` is true when the candidate still fails the same way
    fn reduce(
        &self,
        c: &Self::Case,
        _env: &Env,
        _fails: &mut dyn FnMut(&Self::Case) -> bool,
    ) -> Self::Case {
        c.clone()
    }
    /// how a case is shown in evidence samples (truncated)
    fn sample(&self, c: &Self::Case) -> Value {
        let v = serde_json::to_value(c).unwrap_or(Value::Null);
        clip_value(v, 400)
    }
    /// worker processes used (CLI properties use fewer)
    fn workers(&self) -> usize {
        16
    }
}

pub fn clip_value(v: Value, max: usize) -> Value {
    match v {
        Value::String(s) => Value::String(syn::clip(&s, max)),
        Value::Array(a) => Value::Array(a.into_iter().take(12).map(|x| clip_value(x, max)).collect()),
        Value::Object(o) => Value::Object(o.into_iter().map(|(k, x)| (k, clip_value(x, max))).collect()),
        x => x,
    }
}

#[derive(Serialize, Deserialize)]
pub struct Violation {
    pub property: String,
    pub case: Value,
    pub sig: String,
    pub detail: String,
    pub origin: String,
}

#[derive(Serialize, Deserialize)]
pub struct WorkerResult {
    pub stats: Stats,
    pub violation: Option<Violation>,
    pub wall_s: f64,
}

fn case_hash<C: Serialize>(c: &C) -> u64 {
    syn::fnv64(serde_json::to_string(c).unwrap_or_default().as_bytes())
}

struct Inflight {
    file: Option<std::fs::File>,
}

impl Inflight {
    fn new(path: &Path) -> Inflight {
        Inflight { file: std::fs::File::create(path).ok() }
    }
    fn set<C: Serialize>(&mut self, c: &C) {
        use std::os::unix::fs::FileExt;
        if let Some(f) = &self.file {
            let s = serde_json::to_vec(c).unwrap_or_default();
            let mut buf = Vec::with_capacity(s.len() + 8);
            buf.extend_from_slice(&(s.len() as u64).to_le_bytes());
            buf.extend_from_slice(&s);
            let _ = f.write_all_at(&buf, 0);
        }
    }
}

pub fn read_inflight(path: &Path) -> Option<Value> {
    let b = std::fs::read(path).ok()?;
    if b.len() < 8 {
        return None;
    }
    let n = u64::from_le_bytes(b[..8].try_into().ok()?) as usize;
    if b.len() < 8 + n || n == 0 {
        return None;
    }
    serde_json::from_slice(&b[8..8 + n]).ok()
}

pub fn trigger_audit() -> bool {
    static A: std::sync::OnceLock<bool> = std::sync::OnceLock::new();
    *A.get_or_init(|| std::env::var("VERIF_TRIGGER_AUDIT").is_ok_and(|v| v == "1"))
}

pub fn survey_mode() -> bool {
    std::env::var("VERIF_SURVEY").is_ok_and(|v| v != "0" && !v.is_empty())
}

/// VERIF_EXCLUDE_UP_FRONT=1 restores the first implementation: every input that contains the trigger
/// of an active finding is excluded before the oracle runs.
fn exclude_all_up_front() -> bool {
    static A: std::sync::OnceLock<bool> = std::sync::OnceLock::new();
    *A.get_or_init(|| std::env::var("VERIF_EXCLUDE_UP_FRONT").is_ok_and(|v| v == "1"))
}

/// Evaluate one case: bookkeeping + oracle. Returns the failure if any, together with a reduced case
/// when the failure had to be separated from a known finding.
///
/// Known findings (counting mode, i.e. the search itself): the few findings with a precise, frequent
/// trigger are excluded up front (`excluded_up_front`). For all others the oracle runs first. A
/// failing case that contains the trigger of an active finding is then SHRUNK (same failure signature,
/// triggers ignored) and looked at again: if the minimal failing form still contains a trigger the
/// failure is that finding's (counted as `known_finding_hit:<id>`); if it does not, the trigger was
/// incidental -- somewhere else in a large document -- and the failure is a new violation. An input is
/// thus no longer lost to the search merely because it contains a trigger somewhere.
///
/// Non-counting mode (candidates while a violation is being shrunk): every trigger excludes, as before,
/// so reduction never drifts from a new violation into a known finding.
fn eval<P: Prop>(
    p: &P,
    c: &P::Case,
    env: &Env,
    st: &mut Stats,
    inflight: &mut Inflight,
    counting: bool,
) -> Option<(Failure, Option<P::Case>)> {
    let judge_after = counting && !exclude_all_up_front();
    if !env.strict {
        let ex = if judge_after { p.excluded_up_front(c, env) } else { p.excluded(c, env) };
        if let Some(id) = ex {
            if counting {
                st.skip(&format!("excluded_by_known_finding:{id}"));
                // development aid (VERIF_TRIGGER_AUDIT=1): how many of the excluded cases really fail?
                if trigger_audit() {
                    let mut scratch = Stats::default();
                    let failed = matches!(p.check(c, env, &mut scratch), Verdict::Fail(_));
                    *st.extra.entry(format!("audit:{id}:excluded")).or_insert(0.0) += 1.0;
                    if failed {
                        *st.extra.entry(format!("audit:{id}:failing")).or_insert(0.0) += 1.0;
                    }
                }
            }
            return None;
        }
    }
    inflight.set(c);
    let mut scratch = Stats::default();
    let v = p.check(c, env, if counting { st } else { &mut scratch });
    match v {
        Verdict::Pass { nontrivial } => {
            if counting {
                st.evaluations += 1;
                if nontrivial {
                    st.nontrivial += 1;
                    let h = case_hash(c);
                    if st.nt_hashes.insert(h) && st.samples.len() < 3 {
                        st.samples.push(p.sample(c));
                    }
                }
            }
            None
        }
        Verdict::Skip(why) => {
            if counting {
                st.skip(&why);
            }
            None
        }
        Verdict::Fail(f) => {
            if counting {
                st.evaluations += 1;
            }
            if judge_after && !env.strict && p.excluded(c, env).is_some() {
                // separate the failure from the known findings: shrink, then look for triggers again
                let sig = f.sig.clone();
                let mut budget = 1500u32;
                let mut fails = |cand: &P::Case| -> bool {
                    if budget == 0 {
                        return false;
                    }
                    budget -= 1;
                    let mut sc = Stats::default();
                    matches!(p.check(cand, env, &mut sc), Verdict::Fail(f2) if f2.sig == sig)
                };
                let reduced = p.reduce(c, env, &mut fails);
                return match p.excluded(&reduced, env) {
                    Some(id) => {
                        st.skip(&format!("known_finding_hit:{id}"));
                        None
                    }
                    None => Some((f, Some(reduced))),
                };
            }
            Some((f, None))
        }
    }
}

type SurveyCases<C> = std::collections::BTreeMap<String, (usize, C, Failure)>;

fn record_survey_typed<P: Prop>(c: &P::Case, f: &Failure, cases: &mut SurveyCases<P::Case>) {
    let len = serde_json::to_string(c).map(|s| s.len()).unwrap_or(usize::MAX);
    match cases.get_mut(&f.sig) {
        Some(e) if e.0 <= len => {}
        Some(e) => *e = (len, c.clone(), f.clone()),
        None => {
            cases.insert(f.sig.clone(), (len, c.clone(), f.clone()));
        }
    }
}

fn record_survey<P: Prop>(p: &P, c: &P::Case, f: Failure, st: &mut Stats) {
    let ex = p.sample(c);
    let full = serde_json::to_value(c).unwrap_or(Value::Null);
    let e = st.failures.entry(f.sig.clone()).or_insert((0, full.clone(), f.detail.clone()));
    e.0 += 1;
    if full.to_string().len() < e.1.to_string().len() {
        e.1 = full;
        e.2 = f.detail;
    }
    let _ = ex;
}

pub fn shrink_and_report<P: Prop>(p: &P, c: P::Case, f: Failure, env: &Env, origin: &str) -> Violation {
    let sig = f.sig.clone();
    let mut budget = 4000u32;
    let mut dummy_inflight = Inflight { file: None };
    let mut fails = |cand: &P::Case| -> bool {
        if budget == 0 {
            return false;
        }
        budget -= 1;
        let mut st = Stats::default();
        match eval(p, cand, env, &mut st, &mut dummy_inflight, false) {
            Some((f2, _)) => f2.sig == sig,
            None => false,
        }
    };
    let reduced = p.reduce(&c, env, &mut fails);
    // recompute the detail on the reduced case
    let mut st = Stats::default();
    let f2 = match p.check(&reduced, env, &mut st) {
        Verdict::Fail(f2) if f2.sig == sig => f2,
        _ => f,
    };
    Violation {
        property: p.id().to_string(),
        case: serde_json::to_value(&reduced).unwrap_or(Value::Null),
        sig: f2.sig,
        detail: f2.detail,
        origin: origin.to_string(),
    }
}

/// One worker: its slice of the deterministic sweep, then its share of generated cases.
pub fn run_worker<P: Prop>(p: &P, env: &Env, w: usize, nw: usize, outdir: &Path) -> WorkerResult {
    let t0 = Instant::now();
    let survey = survey_mode();
    let mut st = Stats::default();
    let mut inflight = Inflight::new(&outdir.join(format!("w{w}.inflight")));
    let mut violation = None;
    let survey_cases: std::cell::RefCell<SurveyCases<P::Case>> = std::cell::RefCell::new(Default::default());

    // deterministic sweep
    let n = p.sweep_len(env);
    let mut i = w;
    while i < n {
        if let Some(c) = p.sweep_case(i, env) {
            st.swept += 1;
            if let Some((f, reduced)) = eval(p, &c, env, &mut st, &mut inflight, true) {
                let c = reduced.unwrap_or(c);
                if survey {
                    record_survey_typed::<P>(&c, &f, &mut survey_cases.borrow_mut());
                    record_survey(p, &c, f, &mut st);
                } else {
                    violation = Some(shrink_and_report(p, c, f, env, "sweep"));
                    break;
                }
            }
        }
        i += nw;
    }

    // generated cases
    let total = p.gen_cases(env.tier);
    let mine = total / nw as u64 + if (w as u64) < total % nw as u64 { 1 } else { 0 };
    if violation.is_none() && mine > 0 {
        let seed = syn::splitmix64(env.seed ^ syn::fnv64(p.id().as_bytes()) ^ ((w as u64) << 48));
        let mut seed_bytes = [0u8; 32];
        for k in 0..4 {
            seed_bytes[k * 8..k * 8 + 8]
                .copy_from_slice(&syn::splitmix64(seed.wrapping_add(k as u64)).to_le_bytes());
        }
        let _ = seed_bytes;
        let cfg = PtConfig {
            cases: mine.min(u32::MAX as u64) as u32,
            rng_seed: RngSeed::Fixed(seed),
            failure_persistence: None,
            max_shrink_iters: 1500,
            max_global_rejects: u32::MAX,
            max_local_rejects: u32::MAX,
            ..PtConfig::default()
        };
        let mut runner = TestRunner::new(cfg);
        let strat = proptest::collection::vec(proptest::num::u8::ANY, 0..p.tape_max());
        let first_sig: std::cell::RefCell<Option<String>> = std::cell::RefCell::new(None);
        // a failure that had to be separated from known findings comes with its reduced case: that
        // case is reported, the tape is not shrunk (its smaller neighbours drift into the findings)
        let judged: std::cell::RefCell<Option<P::Case>> = std::cell::RefCell::new(None);
        let st_cell = std::cell::RefCell::new(&mut st);
        let infl_cell = std::cell::RefCell::new(&mut inflight);
        let res = runner.run(&strat, |tape| {
            let shrinking = first_sig.borrow().is_some();
            if shrinking && judged.borrow().is_some() {
                return Ok(());
            }
            let mut st = st_cell.borrow_mut();
            let mut infl = infl_cell.borrow_mut();
            let mut t = Tape::new(&tape);
            let mut scratch = Stats::default();
            let c = if shrinking {
                p.decode(&mut t, env, &mut scratch)
            } else {
                st.generated += 1;
                let c = p.decode(&mut t, env, &mut st);
                if c.is_none() {
                    st.rejected += 1;
                }
                c
            };
            let Some(c) = c else { return Ok(()) };
            match eval(p, &c, env, &mut st, &mut infl, !shrinking) {
                None => Ok(()),
                Some((f, reduced)) => {
                    let c = reduced.clone().unwrap_or(c);
                    if shrinking {
                        if first_sig.borrow().as_deref() == Some(f.sig.as_str()) {
                            Err(TestCaseError::fail(f.sig))
                        } else {
                            Ok(())
                        }
                    } else if survey {
                        record_survey_typed::<P>(&c, &f, &mut survey_cases.borrow_mut());
                        record_survey(p, &c, f, &mut st);
                        Ok(())
                    } else {
                        *first_sig.borrow_mut() = Some(f.sig.clone());
                        if reduced.is_some() {
                            *judged.borrow_mut() = Some(c);
                        }
                        Err(TestCaseError::fail(f.sig))
                    }
                }
            }
        });
        drop(st_cell);
        drop(infl_cell);
        if let Err(TestError::Fail(_, tape)) = res {
            let mut t = Tape::new(&tape);
            let mut scratch = Stats::default();
            let final_case = match judged.borrow_mut().take() {
                Some(c) => Some(c),
                None => p.decode(&mut t, env, &mut scratch),
            };
            if let Some(c) = final_case {
                let mut sc = Stats::default();
                if let Verdict::Fail(f) = p.check(&c, env, &mut sc) {
                    violation = Some(shrink_and_report(p, c, f, env, "generated"));
                }
            }
            if violation.is_none() {
                // should not happen (decode and check are pure); report it as is
                violation = Some(Violation {
                    property: p.id().to_string(),
                    case: Value::Null,
                    sig: first_sig.borrow().clone().unwrap_or_default(),
                    detail: "failure did not reproduce from the shrunk tape (non-deterministic check?)".into(),
                    origin: "generated".into(),
                });
            }
        } else if let Err(TestError::Abort(r)) = res {
            eprintln!("worker {w}: proptest aborted: {r}");
        }
    }

    // survey mode: shrink the smallest example of each bucket (a few per worker)
    if survey {
        let mut cases: Vec<(String, (usize, P::Case, Failure))> = survey_cases.into_inner().into_iter().collect();
        cases.sort_by_key(|(_, (len, _, _))| *len);
        for (sig, (_, c, f)) in cases.into_iter().take(10) {
            let v = shrink_and_report(p, c, f, env, "survey");
            if let Some(e) = st.failures.get_mut(&sig) {
                e.1 = v.case;
                e.2 = v.detail;
            }
        }
    }

    // hashes go to a side file
    let mut hb = Vec::with_capacity(st.nt_hashes.len() * 8);
    for h in &st.nt_hashes {
        hb.extend_from_slice(&h.to_le_bytes());
    }
    let _ = std::fs::write(outdir.join(format!("w{w}.hashes")), hb);
    WorkerResult { stats: st, violation, wall_s: t0.elapsed().as_secs_f64() }
}

pub struct RunOutcome {
    pub stats: Stats,
    pub distinct_nontrivial: u64,
    pub violation: Option<Violation>,
    /// worker crashed / timed out: (worker, status text, in-flight case)
    pub crashed: Vec<(usize, String, Option<Value>)>,
    pub wall_s: f64,
}

/// Supervisor: spawn `nw` worker processes of this executable and merge what they return.
pub fn supervise(
    exe: &Path,
    id: &str,
    tier: Tier,
    seed: u64,
    nw: usize,
    outdir: &Path,
    timeout_s: u64,
) -> RunOutcome {
    let t0 = Instant::now();
    std::fs::create_dir_all(outdir).ok();
    let mut children = vec![];
    for w in 0..nw {
        let child = std::process::Command::new(exe)
            .arg("worker")
            .arg(id)
            .arg(tier.name())
            .arg(seed.to_string())
            .arg(w.to_string())
            .arg(nw.to_string())
            .arg(outdir)
            .stdin(std::process::Stdio::null())
            .spawn()
            .expect("spawn worker");
        children.push((w, Some(child)));
    }
    let mut stats = Stats::default();
    let mut hashes: HashSet<u64> = HashSet::new();
    let mut violation: Option<Violation> = None;
    let mut crashed = vec![];
    let mut remaining = nw;
    let mut kill_all = false;
    // per-case watchdog: a worker whose in-flight slot has not been rewritten for `stall_s` seconds is
    // stuck in one case (a hang of the code under test, or a machine under extreme load)
    let stall_s: u64 = std::env::var("VERIF_STALL_S").ok().and_then(|s| s.parse().ok()).unwrap_or(420);
    let mut last_seen: Vec<(Option<std::time::SystemTime>, Instant)> = vec![(None, Instant::now()); nw];
    let mut last_poll = Instant::now();
    while remaining > 0 {
        let mut progressed = false;
        let poll_stall = last_poll.elapsed().as_secs() >= 2;
        if poll_stall {
            last_poll = Instant::now();
        }
        for (w, slot) in children.iter_mut() {
            let Some(child) = slot else { continue };
            if poll_stall && !kill_all {
                let mt = std::fs::metadata(outdir.join(format!("w{w}.inflight"))).and_then(|m| m.modified()).ok();
                if mt != last_seen[*w].0 {
                    last_seen[*w] = (mt, Instant::now());
                } else if last_seen[*w].1.elapsed().as_secs() > stall_s {
                    let _ = child.kill();
                    let _ = child.wait();
                    let infl = read_inflight(&outdir.join(format!("w{w}.inflight")));
                    crashed.push((*w, "stalled".into(), infl));
                    *slot = None;
                    remaining -= 1;
                    progressed = true;
                    continue;
                }
            }
            if kill_all {
                let _ = child.kill();
                let _ = child.wait();
                *slot = None;
                remaining -= 1;
                progressed = true;
                continue;
            }
            match child.try_wait() {
                Ok(Some(status)) => {
                    progressed = true;
                    remaining -= 1;
                    let resf = outdir.join(format!("w{w}.json"));
                    let parsed: Option<WorkerResult> =
                        std::fs::read(&resf).ok().and_then(|b| serde_json::from_slice(&b).ok());
                    match (status.success(), parsed) {
                        (true, Some(r)) => {
                            if let Ok(hb) = std::fs::read(outdir.join(format!("w{w}.hashes"))) {
                                for ch in hb.chunks_exact(8) {
                                    hashes.insert(u64::from_le_bytes(ch.try_into().unwrap()));
                                }
                            }
                            stats.merge(r.stats);
                            if let Some(v) = r.violation {
                                if violation.is_none() {
                                    violation = Some(v);
                                    kill_all = true;
                                }
                            }
                        }
                        _ => {
                            let infl = read_inflight(&outdir.join(format!("w{w}.inflight")));
                            crashed.push((*w, format!("{status}"), infl));
                        }
                    }
                    *slot = None;
                }
                Ok(None) => {}
                Err(e) => {
                    progressed = true;
                    remaining -= 1;
                    crashed.push((*w, format!("wait error {e}"), None));
                    *slot = None;
                }
            }
        }
        if !progressed {
            if t0.elapsed().as_secs() > timeout_s {
                for (w, slot) in children.iter_mut() {
                    if let Some(child) = slot {
                        let _ = child.kill();
                        let _ = child.wait();
                        let infl = read_inflight(&outdir.join(format!("w{w}.inflight")));
                        crashed.push((*w, "timeout".into(), infl));
                        *slot = None;
                    }
                }
                break;
            }
            std::thread::sleep(std::time::Duration::from_millis(20));
        }
    }
    // keep a few samples only
    let mut samples = std::mem::take(&mut stats.samples);
    let step = (samples.len() / 8).max(1);
    samples = samples.into_iter().step_by(step).take(8).collect();
    stats.samples = samples;
    RunOutcome {
        distinct_nontrivial: hashes.len() as u64,
        stats,
        violation,
        crashed,
        wall_s: t0.elapsed().as_secs_f64(),
    }
}

#[allow(clippy::too_many_arguments)]
pub fn write_evidence(
    path: &Path,
    id: &str,
    tier: Tier,
    seed: u64,
    rule: &str,
    assumptions: &[String],
    out: &RunOutcome,
    violations: u64,
    known_lines: &[String],
    regress_replayed: u64,
    extra: Value,
) {
    let st = &out.stats;
    let mut coverage = json!({
        "evaluations": st.evaluations,
        "distinct_nontrivial": out.distinct_nontrivial,
        "rule": rule,
        "samples": st.samples,
        "exhaustive": false,
        "swept_cases": st.swept,
        "generated_cases": st.generated,
        "rejected": st.rejected,
        "nontrivial_evaluations": st.nontrivial,
        "skipped": st.skipped,
        "labels": st.labels,
        "known_findings_reported": known_lines,
        "regress_replayed": regress_replayed,
        "workers_crashed_or_timed_out": out.crashed.len(),
        "metrics": st.extra,
    });
    if let (Value::Object(c), Value::Object(e)) = (&mut coverage, extra) {
        for (k, v) in e {
            c.insert(k, v);
        }
    }
    let ev = json!({
        "property_id": id,
        "tier": tier.name(),
        "seed": seed,
        "level": "exploration",
        "coverage": coverage,
        "assumptions": assumptions,
        "wall_s": out.wall_s,
        "violations": violations,
    });
    if let Some(dir) = path.parent() {
        std::fs::create_dir_all(dir).ok();
    }
    if let Ok(mut f) = std::fs::File::create(path) {
        let _ = f.write_all(serde_json::to_string_pretty(&ev).unwrap().as_bytes());
        let _ = f.write_all(b"\n");
    }
}
