//! Generators, oracles and the engine of the typstyle verification harness.
//!
//! This crate deliberately does NOT depend on typstyle: the formatter under test is
//! handed in through the [`api::Formatter`] trait, so editing /repo never rebuilds it.

pub mod api;
pub mod corpus;
pub mod engine;
pub mod fuzzdec;
pub mod gen;
pub mod known;
pub mod oracle;
pub mod props;
pub mod props2;
pub mod reduce;
pub mod syn;
pub mod tape;
