//! Generators. Every choice comes from the tape.

pub mod bytes;
pub mod config;
pub mod grammar;
pub mod mutate;
pub mod nest;
pub mod programs;

use crate::corpus::Corpus;
use crate::tape::Tape;

/// Which source families a property wants, as weights.
#[derive(Clone, Copy)]
pub struct Mix {
    pub snippet: u32,
    pub file: u32,
    pub mutant: u32,
    pub grammar: u32,
}

pub const DEFAULT_MIX: Mix = Mix { snippet: 2, file: 1, mutant: 8, grammar: 8 };

/// Generate a source text (not yet checked for well-formedness) and a label for its origin.
pub fn source(t: &mut Tape, corpus: &Corpus, mix: Mix, focus: grammar::Focus) -> (String, &'static str) {
    match t.weighted(&[mix.grammar, mix.mutant, mix.snippet, mix.file]) {
        0 => (grammar::document(t, focus), "G1"),
        1 => {
            // mutate a corpus snippet (mostly) or a generated document
            let base = if t.chance(200) && !corpus.wf_snips.is_empty() {
                corpus.items[t.pick(&corpus.wf_snips)].text.clone()
            } else if t.chance(128) {
                grammar::document(t, focus)
            } else {
                corpus.items[t.pick(&corpus.wf_files)].text.clone()
            };
            (mutate::mutate(t, &base, corpus), "G2")
        }
        2 if !corpus.wf_snips.is_empty() => (corpus.items[t.pick(&corpus.wf_snips)].text.clone(), "G0s"),
        _ => (corpus.items[t.pick(&corpus.wf_files)].text.clone(), "G0f"),
    }
}
