//! G4: nesting families. `wrap(kind, inner)` builds one level; a family nests the same
//! wrapper (or a tape-chosen mix) `depth` times around a small kernel.

use crate::tape::Tape;

pub const FAMILIES: &[&str] = &[
    "call-arg", "named-arg", "array", "dict", "paren", "unary", "binary-l", "binary-r", "chain-recv", "chain-arg",
    "closure-body", "closure-default", "code-block", "content-block", "if-branch", "else-branch", "for-body", "let-init",
    "destructuring", "show-transform", "strong", "emph", "list", "enum", "term", "math-delim", "math-call", "math-attach",
    "math-frac", "math-root", "math-code", "equation-in-code", "table-cell", "context", "field-call", "heading-call",
    "trailing-content", "while-body", "return-closure", "spread-arg",
    // added after seeded change C05-2 (a try-then-fallback layout that converts its arguments twice):
    // one family per construct that has alternative layouts
    "plain-chain-arg", "plain-chain-named", "plain-chain-content", "long-chain-arg", "grid-cell", "table-cell-call", "set-arg",
    "show-selector", "dict-str-key", "paren-key", "two-trailing", "compare", "not", "for-iter", "if-cond", "while-cond",
    "import-source", "include-source", "math-2d", "math-named", "math-lr", "math-attach-both", "math-prime", "term-term",
    "ref-supplement", "destruct-assign", "array-spread", "dict-spread", "closure-sink", "let-closure", "set-if", "show-set",
    "binary-chain-mid", "assign", "field-of-call", "args-mixed",
];

/// (mode of the wrapper, mode of the hole): 'c' code, 'm' markup, 'M' math
fn modes(kind: &str) -> (char, char) {
    match kind {
        "content-block" | "trailing-content" => ('c', 'm'),
        "strong" | "emph" | "list" | "enum" | "term" => ('m', 'm'),
        "math-delim" | "math-call" | "math-attach" | "math-frac" | "math-root" | "math-2d" | "math-named" | "math-lr"
        | "math-attach-both" | "math-prime" => ('M', 'M'),
        "plain-chain-content" | "two-trailing" => ('c', 'm'),
        "term-term" | "ref-supplement" => ('m', 'm'),
        "math-code" => ('M', 'c'),
        "equation-in-code" => ('c', 'M'),
        "heading-call" => ('m', 'c'),
        _ => ('c', 'c'),
    }
}

fn wrap(kind: &str, x: &str) -> String {
    match kind {
        "call-arg" => format!("f({x})"),
        "named-arg" => format!("f(a: {x})"),
        "array" => format!("(1, {x})"),
        "dict" => format!("(k: {x})"),
        "paren" => format!("({x})"),
        "unary" => format!("-{x}"),
        "binary-l" => format!("{x} + 1"),
        "binary-r" => format!("1 + {x}"),
        "chain-recv" => format!("{x}.map(it => it).len()"),
        "chain-arg" => format!("a.map({x}).at(0)"),
        "closure-body" => format!("x => {x}"),
        "closure-default" => format!("(x: {x}) => x"),
        "code-block" => format!("{{\n  let y = 1\n  {x}\n}}"),
        "content-block" => format!("[a {x} b]"),
        "if-branch" => format!("if c {{ {x} }}"),
        "else-branch" => format!("if c {{ 1 }} else {{ {x} }}"),
        "for-body" => format!("for i in r {{ {x} }}"),
        "while-body" => format!("while c {{ {x} }}"),
        "let-init" => format!("{{ let y = {x}; y }}"),
        "destructuring" => format!("{{ let (a, (b, c)) = {x}; a }}"),
        "show-transform" => format!("{{ show: it => {x}; 1 }}"),
        "strong" => format!("*a {x}*"),
        "emph" => format!("_a {x}_"),
        "list" => format!("- a\n  {}", x.replace('\n', "\n  ")),
        "enum" => format!("+ a\n  {}", x.replace('\n', "\n  ")),
        "term" => format!("/ t: a\n  {}", x.replace('\n', "\n  ")),
        "math-delim" => format!("(a + {x})"),
        "math-call" => format!("f(a, {x})"),
        "math-attach" => format!("a_({x})"),
        "math-frac" => format!("(1 + {x})/2"),
        "math-root" => format!("√({x})"),
        "math-code" => format!("#({x})"),
        "equation-in-code" => format!("$a + {x}$"),
        "table-cell" => format!("table(columns: 2, [a], {x})"),
        "context" => format!("context {x}"),
        "field-call" => format!("({x}).pos()"),
        "heading-call" => format!("= H #({x})"),
        "trailing-content" => format!("f(1)[{x}]"),
        "return-closure" => format!("() => {{ return {x} }}"),
        "spread-arg" => format!("f(..{x})"),
        "plain-chain-arg" => format!("aaa.bbb.ccc({x})"),
        "plain-chain-named" => format!("std.math.vec(k: {x})"),
        "plain-chain-content" => format!("aaa.bbb.ccc[{x}]"),
        "long-chain-arg" => format!("long-identifier-name.field-name.another-field.method(1, {x})"),
        "grid-cell" => format!("grid(columns: (1fr, 1fr), {x}, [b])"),
        "table-cell-call" => format!("table(columns: 2, [a], table.cell({x}))"),
        "set-arg" => format!("{{ set text(size: {x}); 1 }}"),
        "show-selector" => format!("{{ show heading.where(level: {x}): it => it; 1 }}"),
        "dict-str-key" => format!("(\"k\": {x}, j: 1)"),
        "paren-key" => format!("(({x}): 1)"),
        "two-trailing" => format!("f(1)[{x}][b]"),
        "compare" => format!("{x} == 1 and true"),
        "not" => format!("not {x}"),
        "for-iter" => format!("for i in {x} {{ i }}"),
        "if-cond" => format!("if {x} {{ 1 }}"),
        "while-cond" => format!("while {x} {{ 1 }}"),
        "import-source" => format!("{{ import {x}: a, b; a }}"),
        "include-source" => format!("{{ include {x} }}"),
        "math-2d" => format!("mat(a, {x}; b, c)"),
        "math-named" => format!("f(k: {x})"),
        "math-lr" => format!("lr(({x}))"),
        "math-attach-both" => format!("a^({x})_b"),
        "math-prime" => format!("f'({x})"),
        "term-term" => format!("/ {}: d", x.replace('\n', " ")),
        "ref-supplement" => format!("@lbl[{}]", x.replace('\n', " ")),
        "destruct-assign" => format!("{{ (a, b) = {x}; a }}"),
        "array-spread" => format!("(..{x}, 1)"),
        "dict-spread" => format!("(..{x}, k: 1)"),
        "closure-sink" => format!("(..r) => {x}"),
        "let-closure" => format!("{{ let g(a, b: 1) = {x}; g }}"),
        "set-if" => format!("{{ set text(red) if {x}; 1 }}"),
        "show-set" => format!("{{ show: set text(fill: {x}); 1 }}"),
        "binary-chain-mid" => format!("1 + {x} + 2 * 3 - 4"),
        "assign" => format!("{{ y = {x}; y }}"),
        "field-of-call" => format!("f({x}).field.other"),
        "args-mixed" => format!("f(1, k: {x}, ..r)[t]"),
        _ => format!("({x})"),
    }
}

fn kernel(mode: char) -> &'static str {
    match mode {
        'c' => "x",
        'm' => "word",
        _ => "y",
    }
}

/// adapt text of mode `from` so that it can sit in a hole of mode `to`
fn adapt(from: char, to: char, x: &str) -> String {
    match (from, to) {
        (a, b) if a == b => x.to_string(),
        ('c', 'm') => format!("#({x})"),
        ('c', 'M') => format!("#({x})"),
        ('m', 'c') => format!("[{x}]"),
        ('m', 'M') => format!("#[{x}]"),
        ('M', 'c') => format!("${x}$"),
        ('M', 'm') => format!("${x}$"),
        _ => x.to_string(),
    }
}

/// Build a document nesting `kinds` (outermost first) around a kernel.
pub fn build(kinds: &[&str]) -> String {
    let mut cur_mode = modes(kinds.last().copied().unwrap_or("paren")).1;
    let mut cur = kernel(cur_mode).to_string();
    for k in kinds.iter().rev() {
        let (outer, hole) = modes(k);
        let inner = adapt(cur_mode, hole, &cur);
        cur = wrap(k, &inner);
        cur_mode = outer;
    }
    let mut doc = adapt(cur_mode, 'm', &cur);
    doc.push('\n');
    doc
}

pub fn same(kind: &str, depth: usize) -> String {
    let kinds: Vec<&str> = std::iter::repeat_n(kind, depth).collect();
    build(&kinds)
}

pub fn mixed(t: &mut Tape, depth: usize) -> (String, Vec<&'static str>) {
    let kinds: Vec<&'static str> = (0..depth).map(|_| t.pick(FAMILIES)).collect();
    (build(&kinds), kinds)
}
