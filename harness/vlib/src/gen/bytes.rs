//! G3: byte-level inputs: random strings over a Typst-heavy alphabet and damaged corpus text.

use crate::corpus::Corpus;
use crate::tape::Tape;

const PIECES: &[&str] = &[
    " ", " ", "\n", "\n", "\t", "\r\n", "\r", "\u{b}", "\u{c}", "\u{85}", "\u{2028}", "\u{2029}", "\u{a0}",
    "\u{3000}", "\u{feff}", "\u{200b}", "\0", "#", "#", "$", "$", "*", "_", "`", "```", "\"", "\\", "/", "//", "/*",
    "*/", "(", ")", "[", "]", "{", "}", "<", ">", "@", "=", "==", "=>", "-", "+", ".", "..", ",", ";", ":", "&",
    "^", "'", "|", "~", "!", "?", "a", "b", "x", "f", "1", "0", "2.5", "1em", "0x1f", "1e3", "let", "set", "show",
    "if", "else", "for", "in", "while", "not", "and", "or", "import", "include", "as", "context", "return",
    "break", "continue", "none", "auto", "true", "false", "table", "grid", "columns", "é", "字", "😀", "\u{301}",
    "\u{10ffff}", "\u{fffd}", "א", "@typstyle off", "#table(columns: 100000000000, [a], [b])", "#grid(columns: 9223372036854775807, [a])", "- ", "+ ", "/ ", "= ", "http://a.b", "<l>", "@r", "#f(", "$ ",
    " $", "#{", "#[", "/* ", " */", "// ", "\\\n", "--", "---", "...", "->", "<=", "!=",
];

pub fn random_text(t: &mut Tape) -> String {
    let n = t.range(0, 60);
    let mut s = String::new();
    for _ in 0..n {
        if t.chance(24) {
            // any scalar value
            let v = (t.u16() as u32) << 5 | (t.byte() as u32 & 31);
            if let Some(c) = char::from_u32(v % 0x110000) {
                s.push(c);
            }
        } else {
            s.push_str(t.pick(PIECES));
        }
    }
    s
}

/// Damage a text: delete / insert / duplicate / transpose spans on char boundaries,
/// unbalance a delimiter.
pub fn damage(t: &mut Tape, src: &str) -> String {
    let mut s: Vec<char> = src.chars().collect();
    let k = t.range(1, 3);
    for _ in 0..k {
        let n = s.len();
        match t.below(6) {
            0 if n > 0 => {
                let i = t.below(n);
                let l = t.range(1, 6).min(n - i);
                s.drain(i..i + l);
            }
            1 => {
                let i = t.below(n + 1);
                let ins: Vec<char> = t.pick(PIECES).chars().collect();
                s.splice(i..i, ins);
            }
            2 if n > 0 => {
                let i = t.below(n);
                let l = t.range(1, 12).min(n - i);
                let dup: Vec<char> = s[i..i + l].to_vec();
                s.splice(i..i, dup);
            }
            3 if n > 1 => {
                let i = t.below(n - 1);
                s.swap(i, i + 1);
            }
            4 if n > 0 => {
                // remove one delimiter
                let idx: Vec<usize> = (0..n).filter(|&i| "()[]{}$\"`*_".contains(s[i])).collect();
                if !idx.is_empty() {
                    let i = t.pick(&idx);
                    s.remove(i);
                }
            }
            _ if n > 0 => {
                // truncate
                let i = t.below(n);
                s.truncate(i);
            }
            _ => {}
        }
    }
    s.into_iter().collect()
}

pub fn any_text(t: &mut Tape, corpus: &Corpus) -> (String, &'static str) {
    match t.weighted(&[3, 4, 2]) {
        0 => (random_text(t), "G3-random"),
        1 => {
            let base = &corpus.items[t.below(corpus.items.len())].text;
            let base = if base.len() > 3000 {
                let mut e = 3000;
                while !base.is_char_boundary(e) {
                    e -= 1;
                }
                &base[..e]
            } else {
                base
            };
            (damage(t, base), "G3-damaged")
        }
        _ => {
            let g = crate::gen::grammar::document(t, crate::gen::grammar::Focus::Any);
            (damage(t, &g), "G3-damaged-G1")
        }
    }
}
