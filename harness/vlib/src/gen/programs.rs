//! G1s: loosely typed generator of self-contained Typst programs that (mostly) compile. Every
//! bound value is shown with `repr`, so a changed value changes pixels. It concentrates on
//! syntax whose meaning depends on layout (statement boundaries, `else` placement, chains and
//! operators across lines, trailing content blocks, edge blanks).

use crate::tape::Tape;

pub struct P<'t, 'd> {
    t: &'t mut Tape<'d>,
    budget: i32,
    /// names of closures-local variables in scope (ints)
    locals: Vec<&'static str>,
}

const PRELUDE: &str = "#set page(width: 220pt, height: 160pt, margin: 6pt)\n#set text(size: 7pt)\n#let xs = (3, 1, 2)\n#let d = (a: 1, b: \"x\", c: (4, 5))\n#let s = \"str\"\n#let f(x, y: 2) = x + y\n#let g(..args) = args.pos().len()\n#let h(body, n: 1) = [(#n: #body)]\n";

impl<'t, 'd> P<'t, 'd> {
    fn sp(&mut self) -> &'static str {
        self.t.pick(&[" ", " ", " ", "  "])
    }

    /// blank inside delimiters: may be a line break
    fn dsp(&mut self) -> &'static str {
        self.t.pick(&["", "", " ", "\n  ", "\n", " "])
    }

    fn int(&mut self, d: u32) -> String {
        self.budget -= 1;
        if self.budget <= 0 || d > 4 {
            let v = self.locals.clone();
            return match self.t.below(3 + v.len().min(2)) {
                0 => self.t.range(0, 9).to_string(),
                1 => "xs.len()".into(),
                2 => "d.a".into(),
                k => v[(k - 3) % v.len()].to_string(),
            };
        }
        match self.t.below(14) {
            0 => self.t.range(0, 99).to_string(),
            1 => format!("xs.at({})", self.t.below(3)),
            2 => format!("f({},{}y:{}{})", self.int(d + 1), self.sp(), self.sp(), self.int(d + 1)),
            3 => format!("{} + {}", self.int(d + 1), self.int(d + 1)),
            4 => format!("({}{} *{}{}{})", self.dsp(), self.int(d + 1), self.dsp(), self.int(d + 1), self.dsp()),
            5 => format!("calc.max({},{}{})", self.int(d + 1), self.dsp(), self.int(d + 1)),
            6 => format!("if {} {{ {} }} else {{ {} }}", self.boolean(d + 1), self.int(d + 1), self.int(d + 1)),
            7 => format!("xs.fold(0, (a, b) => a + b * {})", self.t.range(1, 3)),
            8 => format!("{{\n  let t = {}\n  t + 1\n}}", self.int(d + 1)),
            9 => format!("{}.len()", self.array(d + 1)),
            10 => format!("g({},{}..{})", self.int(d + 1), self.sp(), self.array(d + 1)),
            11 => format!("-{}", self.t.range(1, 9)),
            12 => format!("({})", self.int(d + 1)),
            _ => format!("{}.at({}, default: 7)", self.array(d + 1), self.t.below(5)),
        }
    }

    fn boolean(&mut self, d: u32) -> String {
        self.budget -= 1;
        if self.budget <= 0 || d > 4 {
            return self.t.pick(&["true", "false"]).to_string();
        }
        match self.t.below(8) {
            0 => format!("{} < {}", self.int(d + 1), self.int(d + 1)),
            1 => "true".into(),
            2 => format!("not {}", self.boolean(d + 1)),
            3 => format!("{} and {}", self.boolean(d + 1), self.boolean(d + 1)),
            4 => format!("{} in xs", self.int(d + 1)),
            5 => format!("{} not in xs", self.int(d + 1)),
            6 => format!("({}{} or{}{})", self.dsp(), self.boolean(d + 1), self.dsp(), self.boolean(d + 1)),
            _ => format!("{} == {}", self.int(d + 1), self.int(d + 1)),
        }
    }

    fn string(&mut self, d: u32) -> String {
        self.budget -= 1;
        if self.budget <= 0 || d > 3 {
            return self.t.pick(&["\"a\"", "s", "\"x y\"", "d.b"]).to_string();
        }
        match self.t.below(7) {
            0 => "\"lit\"".into(),
            1 => format!("s + {}", self.string(d + 1)),
            2 => format!("str({})", self.int(d + 1)),
            3 => format!("{}.map(str).join(\", \")", self.array(d + 1)),
            4 => format!("upper({})", self.string(d + 1)),
            5 => "\"two\nlines\"".into(),
            _ => format!("{}.slice(0, 1)", self.string(d + 1)),
        }
    }

    fn array(&mut self, d: u32) -> String {
        self.budget -= 1;
        if self.budget <= 0 || d > 3 {
            return self.t.pick(&["xs", "d.c", "(1, 2)", "(7,)"]).to_string();
        }
        match self.t.below(10) {
            0 => "xs".into(),
            1 => format!("({},{}{})", self.int(d + 1), self.dsp(), self.int(d + 1)),
            2 => {
                self.locals.push("x");
                let body = self.int(d + 1);
                self.locals.pop();
                format!("xs.map(x => {body})")
            }
            3 => {
                self.locals.push("x");
                let body = self.boolean(d + 1);
                self.locals.pop();
                format!("xs.filter(x => {body})")
            }
            4 => format!("{}.rev()", self.array(d + 1)),
            5 => format!("range({})", self.t.range(0, 4)),
            6 => format!("(..xs,{}{})", self.sp(), self.int(d + 1)),
            7 => format!("({}{},\n)", self.dsp(), self.int(d + 1)),
            8 => {
                // chain with leading dots over several lines (inside parentheses)
                self.locals.push("it");
                let body = self.int(d + 1);
                self.locals.pop();
                format!("(xs\n  .map(it => {body})\n  .rev())")
            }
            _ => format!("{}.slice(1)", self.array(d + 1)),
        }
    }

    fn dict(&mut self, d: u32) -> String {
        self.budget -= 1;
        match self.t.below(5) {
            0 => "d".into(),
            1 => format!("(a:{}{}, b: {})", self.sp(), self.int(d + 1), self.string(d + 1)),
            2 => format!("(..d, e: {})", self.int(d + 1)),
            3 => "(:)".into(),
            _ => format!("(\"k\": {},{}\"l m\": 2)", self.int(d + 1), self.dsp()),
        }
    }

    fn value(&mut self, d: u32) -> String {
        match self.t.below(6) {
            0 | 1 => self.int(d),
            2 => self.boolean(d),
            3 => self.string(d),
            4 => self.array(d),
            _ => self.dict(d),
        }
    }

    fn content(&mut self, d: u32) -> String {
        self.budget -= 1;
        if self.budget <= 0 || d > 3 {
            return self.t.pick(&["[c]", "[a b]", "[*b*]", "[ x ]"]).to_string();
        }
        match self.t.below(12) {
            0 => format!("[v: #{}]", paren_if_needed(&self.int(d + 1))),
            1 => "[*bold* _emph_ `raw`]".into(),
            2 => format!("$x^2 + #{}$", paren_if_needed(&self.int(d + 1))),
            3 => format!("text(fill: red){}", self.content(d + 1)),
            4 => format!("box(stroke: 1pt,{}inset: 2pt){}", self.dsp(), self.content(d + 1)),
            5 => format!("h({}, n: {})", self.content(d + 1), self.int(d + 1)),
            6 => format!("[a#[ b ]c #{}]", self.content(d + 1)),
            7 => "[- one\n  - two\n- three]".into(),
            8 => format!("[*a * {} _b_]", self.t.pick(&["x", "y z"])),
            9 => "$ sum_(i=0)^n i = (n(n+1))/2 $".into(),
            10 => format!("[{}]", self.t.pick(&["1. a\n2. b", "/ T: d\n/ U: e", "a \\\nb", "x -- y --- z ... \"q\""])),
            _ => format!("table(columns: 2,{}[a], [b],{}[c], {})", self.dsp(), self.dsp(), self.content(d + 1)),
        }
    }

    fn stmt(&mut self, i: usize) -> String {
        self.budget = 10 + self.t.below(14) as i32;
        match self.t.below(36) {
            0 | 1 | 2 => format!("#let v{i} = {}\n#repr(v{i})\n", self.value(0)),
            3 => format!("#repr({})\n", self.value(0)),
            4 => format!("#for x in {} [#x, ]\n", self.array(0)),
            5 => {
                // else on the next line
                let nl = self.t.pick(&[" ", "\n", " "]);
                format!("#if {} [yes]{nl}else [no]\n", self.boolean(0))
            }
            6 => format!("#{}\n", self.content(0)),
            7 => format!("= Heading {i} <h{i}>\nSee @h{i}.\n"),
            8 => format!("#let c{i} = {{\n  let a = {}\n  let b = {}; (a, b)\n}}\n#repr(c{i})\n", self.int(0), self.int(0)),
            9 => format!("#show \"zz\": [{}]\nzz\n", self.t.pick(&["Q", "*R*"])),
            10 => format!("#let k{i}(a, b: 1, ..r) = (a, b, r.pos())\n#repr(k{i}({}, b: {}, 8, 9))\n", self.int(0), self.int(0)),
            11 => format!("#context {{\n  let n = counter(heading).get()\n  repr(n)\n}}\n"),
            12 => format!("#let (p{i}, q{i}) = ({}, {})\n#repr(p{i} + q{i})\n", self.int(0), self.int(0)),
            13 => format!("Text with #f({}).{} and #xs.len(); done. #(1).{} #d.a.\n", self.int(0), self.t.pick(&[" Then", "", " x"]), self.t.pick(&[" Next", "a"])),
            14 => format!("#{{\n  let acc = 0\n  for v in xs {{\n    acc += v\n  }}\n  while acc > {} {{ acc -= 2 }}\n  acc\n}}\n", self.t.range(0, 5)),
            15 => format!("#grid(columns: (1fr, 1fr), gutter: 2pt, [{}], [b], grid.cell(colspan: 2)[c])\n", self.t.pick(&["a", "a a"])),
            // closures: parameter lists whose parentheses carry meaning
            16 => format!("#let c{i} = (step: {}) => step + 1\n#repr(c{i}())\n#repr(c{i}(step: 5))\n", self.int(0)),
            17 => format!("#repr(((1, 2), (3, 4)).map(((a, b)) => a + b * {}))\n#repr(xs.map((x) => x + 1))\n#repr(xs.map(x => (x,)))\n", self.t.range(1, 4)),
            18 => format!("#let m{i} = (f: x => x + {}, g: (a, b: 2) => a * b)\n#repr((m{i}.f)(2))\n#repr((m{i}.g)(3, b: 4))\n", self.t.range(1, 9)),
            19 => format!("#let k{i} = (..r, last: {}) => r.pos().len() + last\n#repr(k{i}(1, 2, 3))\n", self.int(0)),
            // content blocks whose first element is a list item with a continuation line
            20 => {
                let head = self.t.pick(&["#block[", "#rect[", "#[", "#box(width: 100%)["]);
                let item = self.t.pick(&["- Preheat\n         to 200.", "+ a\n  b", "- one\n  - two\n    more", "/ T: d\n  e"]);
                let tail = self.t.pick(&["\nServe warm.]", "\n\nc]", "]", "\n]", " ]"]);
                format!("{head}{item}{tail}\n")
            }
            21 => format!("#let w{i} = [a#[ b ]c]\n#w{i} #repr(w{i})\n#[*x* ]y #[ _z_]w\n"),
            // math: spacing and embedded code carry meaning
            22 => format!("#let n = {}\n$x^#n;y + a_#n;b + #n;/2 + √#n;z$ $a b$ $ab$ $f(x, y)$ $f (x)$\n", self.t.range(2, 9)),
            23 => format!("$ mat(1, 2; 3, {}) vec(a, b) cases(x &\"if\" y, z &\"else\") $\n$x_1^2 + x_(i j)$ $a/b$ $(a+b)/c$ $a^(-1)$\n", self.int(0)),
            // rules and scoping
            24 => format!("#show heading: it => [*#it.body*] \n#set list(marker: [--])\n= T{i}\n- a\n  - b\n"),
            25 => format!("#[#set text(fill: blue)\nblue #{{ set text(size: {}pt); [small] }} still]\n", self.t.range(4, 9)),
            26 => format!("#let (a{i}, ..r{i}) = {}\n#repr(a{i}) #repr(r{i})\n#let (x: px{i}, y: py{i}) = (x: 1, y: {})\n#repr(px{i} + py{i})\n", self.t.pick(&["xs", "(1, 2, 3, 4)", "(9,)"]), self.int(0)),
            27 => {
                // else / else if on following lines inside a code block
                let nl = self.t.pick(&[" ", "\n  ", " "]);
                format!("#let e{i} = {{\n  if {} {{ 1 }}{nl}else if {} {{ 2 }}{nl}else {{ 3 }}\n}}\n#repr(e{i})\n", self.boolean(0), self.boolean(0))
            }
            28 => format!("#let t{i} = \"a  b\\n\\\"q\\\"\"\n#repr(t{i}) #t{i}.len()\n`r  aw` ```py\nx = 1\n  y\n```\n"),
            29 => format!("/ Term {i}: description\n  continued\n/ Other: x\n\n+ one\n+ two\n  + nested {}\n", self.t.range(0, 9)),
            30 => format!("#let u{i} = -{} + (-{}) - -1\n#repr(u{i}) #repr(not true or false) #repr(1 + 2 * 3 - (4 - 5))\n", self.t.range(1, 9), self.t.range(1, 9)),
            // imports from the standard library: path items, renames, names bound twice -- which definition
            // wins depends on the item order (matters with reordering on)
            32 | 33 => {
                const ITEMS: &[&str] = &[
                    "int.signum", "float.signum", "calc.pow", "str.rev", "array.rev", "calc.abs", "calc.max as top", "calc.min",
                    "calc.min as top", "array.len", "str.len", "calc.max", "calc.floor as abs",
                ];
                let n = 2 + self.t.below(3);
                let mut items: Vec<&str> = vec![];
                for _ in 0..n {
                    items.push(self.t.pick(ITEMS));
                }
                let (open, close, sep) = match self.t.below(4) {
                    0 => ("(", ")", ", "),
                    1 => ("(\n  ", ",\n)", ",\n  "),
                    _ => ("", "", ", "),
                };
                // every bound name is called with arguments that tell the candidates apart
                let mut uses = String::new();
                let mut seen: Vec<&str> = vec![];
                for it in &items {
                    let name = it.rsplit([' ', '.']).next().unwrap_or(it);
                    if seen.contains(&name) {
                        continue;
                    }
                    seen.push(name);
                    uses.push_str(match name {
                        "signum" => "#repr(signum(2.5)) ",
                        "rev" => "#repr(rev(\"ab\")) ",
                        "len" => "#repr(len(\"ab\")) ",
                        "top" => "#repr(top(1, 2)) ",
                        "abs" => "#repr(abs(-1.5)) ",
                        "min" => "#repr(min(1, 2)) ",
                        "max" => "#repr(max(1, 2)) ",
                        _ => "#repr(pow(2, 3)) ",
                    });
                }
                format!("#import std: {open}{}{close}\n{uses}\n", items.join(sep))
            }
            // references with a supplement: blanks at the inner edges of the supplement are content
            34 => {
                let sup = self.t.pick(&["[Chapter ]", "[ Sec ]", "[ §]", "[Part]", "[]", "[ ]", "[a\n  b ]"]);
                format!("#set heading(numbering: \"1.\")\n= Intro {i} <r{i}>\nSee @r{i}{sup} and @r{i}{}x.\n", self.t.pick(&["[ A ]", "[B ]", ""]))
            }
            // strings and raw text whose characters are counted
            35 => format!(
                "#let z{i} = \"k=v\nq=r\"\n#z{i}.len() #repr(z{i}.split(\"\\n\")) #`a\n b`.text.len()\n#let y{i} = (\"x\n  y\", {})\n#repr(y{i})\n",
                self.int(0)
            ),
            _ => format!("#let q{i} = xs.map(x => x * 2).filter(x => x > {}).len()\n#repr(q{i})\nA #xs.len()th and #d.c.at(0). #(d.a)em #s;x\n", self.t.range(0, 5)),
        }
    }
}

fn paren_if_needed(e: &str) -> String {
    // `#a + b` would end the embedded expression after `a`
    if e.chars().all(|c| c.is_ascii_alphanumeric() || c == '.' || c == '_') && !e.ends_with('.') && !e.chars().next().is_some_and(|c| c.is_ascii_digit()) {
        e.to_string()
    } else {
        format!("({e})")
    }
}

pub fn program(t: &mut Tape) -> String {
    let mut p = P { t, budget: 0, locals: vec![] };
    let mut s = String::from(PRELUDE);
    if p.t.chance(100) {
        s.push_str("#set heading(numbering: \"1.\")\n");
    }
    let n = 1 + p.t.weighted(&[2, 3, 3, 2, 1]);
    for i in 0..n {
        s.push_str(&p.stmt(i));
        if p.t.chance(100) {
            s.push('\n');
        }
    }
    // mixed line endings (a file edited on two systems): the first few line breaks, or a tape-chosen
    // subset, become CRLF / CR -- never those inside strings and raw text, whose value they are
    if p.t.chance(24) {
        let nl = p.t.pick(&["\r\n", "\r\n", "\r"]);
        let first = p.t.range(1, 6);
        let every = p.t.coin();
        let root = crate::syn::parse(&s);
        let flat = crate::syn::flatten(&root);
        let mut out = String::with_capacity(s.len() + 16);
        let mut seen = 0usize;
        for f in flat.iter().filter(|f| f.node.children().len() == 0) {
            let txt = f.node.text().as_str();
            if matches!(f.node.kind(), crate::syn::K::Space | crate::syn::K::Parbreak) && txt.contains('\n') {
                for ch in txt.chars() {
                    if ch == '\n' {
                        seen += 1;
                        if seen <= first || (every && seen % 3 == 0) {
                            out.push_str(nl);
                            continue;
                        }
                    }
                    out.push(ch);
                }
            } else {
                out.push_str(txt);
            }
        }
        if crate::syn::wf(&out) {
            s = out;
        }
    }
    s
}
