//! G6: configurations.

use crate::api::{Cfg, Fmt, Formatter};
use crate::tape::Tape;

pub const HUGE: usize = 1 << 20;

/// The width grid of the deterministic corpus sweep.
pub const SWEEP_WIDTHS: [usize; 17] = [0, 1, 2, 3, 5, 8, 13, 21, 34, 55, 72, 79, 81, 100, 121, 200, HUGE];

pub fn width(t: &mut Tape) -> usize {
    match t.weighted(&[3, 2, 6, 2, 3, 2, 4, 2]) {
        0 => 80,
        1 => 0,
        2 => t.range(1, 30),
        3 => 40,
        4 => t.range(31, 130),
        5 => 120,
        6 => t.range(0, 400),
        _ => HUGE,
    }
}

pub fn tab(t: &mut Tape) -> usize {
    match t.weighted(&[4, 3, 1, 1, 1, 1, 1, 1]) {
        0 => 2,
        1 => 4,
        2 => 1,
        3 => 3,
        4 => 5,
        5 => 6,
        6 => 7,
        _ => 8,
    }
}

/// `blank_lines_upper_bound`: the default in four cases of five (the CLI cannot set anything else), else
/// every small value and a huge one.
pub fn blank(t: &mut Tape) -> usize {
    match t.weighted(&[24, 2, 2, 1, 1, 1]) {
        0 => 2,
        1 => 0,
        2 => 1,
        3 => 3,
        4 => t.range(4, 9),
        _ => HUGE,
    }
}

/// Width targeting: a width equal to the length of some line of the unconstrained output,
/// +-1 — exactly where a group flips between flat and broken.
pub fn targeted_width(t: &mut Tape, f: &dyn Formatter, src: &str, tab: usize) -> Option<usize> {
    let Fmt::Ok(out) = f.format(src, &Cfg { width: HUGE, tab, reorder: false, blank: 2 }) else { return None };
    let lens: Vec<usize> = out.lines().map(|l| l.chars().count()).filter(|&l| l > 0).collect();
    if lens.is_empty() {
        return None;
    }
    let l = t.pick(&lens);
    Some(match t.below(3) {
        0 => l,
        1 => l.saturating_sub(1),
        _ => l + 1,
    })
}

pub fn config(t: &mut Tape, f: &dyn Formatter, src: &str, reorder_chance: u32) -> Cfg {
    let tab = tab(t);
    let width = if t.chance(64) { targeted_width(t, f, src, tab).unwrap_or(80) } else { width(t) };
    let reorder = t.chance(reorder_chance);
    Cfg { width, tab, reorder, blank: blank(t) }
}
