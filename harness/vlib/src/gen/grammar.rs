//! G1: recursive, size-bounded, tape-driven generator for Typst in all three modes.
//! It emits text whose gaps are filled by a layout phase (spaces, tabs, newlines, comments).
//! It does not have to be perfect: the parser decides, rejected text is counted.

use crate::tape::Tape;

#[derive(Clone, Copy, PartialEq, Eq, Debug)]
pub enum Focus {
    Any,
    /// comment at (almost) every gap
    Comments,
    /// as Comments, and some of the comments are `@typstyle off` directives (C06 only: whatever
    /// follows a directive is copied verbatim, which must not cost a comment)
    CommentsOff,
    /// long prose lines, inline elements, lists
    Prose,
    Math,
    Literals,
    Imports,
    /// layouts forced to break: newline after opening delimiters, line comments in lists
    Breaks,
    /// code heavy
    Code,
}

pub struct G<'t, 'd> {
    t: &'t mut Tape<'d>,
    pub out: String,
    budget: i32,
    focus: Focus,
    /// > 0 while inside delimiters where a newline cannot end a statement
    cont: u32,
    /// comment probability (0..256) at list-level gaps (between items, ends of statements)
    cmt: u32,
    /// comment probability at arbitrary token gaps (keyword gaps, around `=`, `=>`, `:`); only in
    /// exotic mode (VERIF_EXOTIC=1), where the unchanged tree has too many known defects
    cmt_gap: u32,
    exotic: bool,
    /// probability (0..256) that a delimited list gets the multi-line flavour
    ml: u32,
    /// current markup indentation (for list nesting)
    indent: usize,
    in_math: u32,
}

const IDENTS: &[&str] = &["a", "b", "c", "x", "y", "foo", "bar-baz", "it", "n", "item_1", "α", "long-identifier-name", "v"];
const FUNCS: &[&str] = &["f", "g", "text", "box", "rect", "foo", "calc.max", "table", "grid", "a.b.c"];
const WORDS: &[&str] = &[
    "page\u{a0}12", "a\u{202f}b", "全\u{3000}角", "thin\u{2009}sp", "em\u{2003}q",

    "lorem", "ipsum", "dolor", "sit", "amet,", "consectetur", "x", "The", "quick", "brown", "fox.", "naïve", "字", "טקסט",
    "e\u{301}", "😀", "a-b", "don't", "1st", "2)", "end.", "(paren)", "semi;", "co:lon", "a/b", "100%", "a=b", "x-", "c+",
];

/// Exotic mode switches on comments at arbitrary token gaps (keyword gaps, around `=`, `=>`, `:`,
/// inside math and math arguments) and, rarely, `\\` line breaks directly before closing
/// delimiters. It is ON in the registered checks (the first sessions had it off because the
/// pinned tree failed in too many ways there; after the `fix:` commits it is tractable);
/// VERIF_EXOTIC=0 switches it off.
pub fn exotic_mode() -> bool {
    static E: std::sync::OnceLock<bool> = std::sync::OnceLock::new();
    *E.get_or_init(|| !std::env::var("VERIF_EXOTIC").is_ok_and(|v| v == "0"))
}

pub fn document(t: &mut Tape, focus: Focus) -> String {
    let budget = 6 + t.below(60) as i32;
    let (cmt, ml) = match focus {
        Focus::Comments | Focus::CommentsOff => (90, 70),
        Focus::Breaks => (40, 200),
        _ => (if t.chance(96) { 40 } else { 6 }, 50),
    };
    let exotic = exotic_mode();
    let cmt_gap = if exotic { cmt } else { 0 };
    let mut g = G { t, out: String::new(), budget, focus, cont: 0, cmt, cmt_gap, exotic, ml, indent: 0, in_math: 0 };
    g.markup_doc();
    let mut s = g.out;
    // newline style of the whole text
    if t.chance(20) {
        let nl = t.pick(&crate::gen::mutate::NEWLINES);
        s = s.replace('\n', nl);
    } else if t.chance(12) {
        // mixed line endings (a file edited on several systems, pasted snippets): each line feed on its own
        // becomes another newline spelling with probability 1/3 -- wherever it stands, also inside a string
        // or raw text (any text the parser accepts is a legitimate input)
        let mut out = String::with_capacity(s.len() + 8);
        for ch in s.chars() {
            if ch == '\n' && t.chance(85) {
                out.push_str(t.pick(&crate::gen::mutate::NEWLINES));
            } else {
                out.push(ch);
            }
        }
        s = out;
    }
    s
}

/// A single code expression (for splicing / nesting kernels).
pub fn expression(t: &mut Tape, budget: i32) -> String {
    let mut g = G { t, out: String::new(), budget, focus: Focus::Code, cont: 1, cmt: 0, cmt_gap: 0, exotic: false, ml: 30, indent: 0, in_math: 0 };
    g.expr(0);
    g.out
}

impl<'t, 'd> G<'t, 'd> {
    fn p(&mut self, s: &str) {
        self.out.push_str(s);
    }

    fn ident(&mut self) -> &'static str {
        self.t.pick(IDENTS)
    }

    fn block_comment(&mut self) {
        const B: &[&str] = &[
            "/* c */", "/**/", "/* a\n   b */", "/* a\n * b\n */", "/* x\n      y\n  z */", "/* 注 */", "/*c*/", "/* a\n\n b */",
            "/* /* nested */ */",
            "/* trailing blanks   \n   here */",
            "/* t   */",
            "/* wide\u{3000}\u{3000}\n   blanks\u{a0}\n */",
        ];
        // rarely a directive: whatever follows is then copied verbatim, which must not cost a comment
        if self.focus == Focus::CommentsOff && self.t.chance(14) {
            self.p("/* @typstyle off */");
            return;
        }
        let s = self.t.pick(B);
        self.p(s);
    }

    fn line_comment(&mut self) {
        const L: &[&str] = &[
            "// c", "//", "// long comment text here", "//c", "// /* x */", "// 注", "// trailing blanks   ", "// t \t",
            // blanks that are not ASCII at the end of the line: measured by the layout, stripped at the end
            "// 注\u{3000}\u{3000}\u{3000}", "// nb\u{a0}", "// em\u{2003}\u{2003} ",
        ];
        let s = if self.focus == Focus::CommentsOff && self.t.chance(14) { "// @typstyle off" } else { self.t.pick(L) };
        self.p(s);
        self.p("\n");
    }

    fn newline_indent(&mut self) {
        self.p("\n");
        let n = self.t.below(7);
        // rarely tabs (code only; in markup the generator tracks columns in spaces)
        let tab = self.cont > 0 && self.t.chance(12);
        for _ in 0..n {
            self.p(if tab { "\t" } else { " " });
        }
    }

    /// inline blanks only
    fn blanks(&mut self) {
        match self.t.weighted(&[36, 6, 3, 2]) {
            0 => self.p(" "),
            1 => self.p("  "),
            2 => self.p("\t"),
            _ => {
                // in code and math every Unicode White_Space character is a blank for Typst's lexer (in markup
                // only space and tab are: there these become text, which is a legitimate input as well).
                // The whole class, so that a classification by bytes or by a hand-written list shows
                // (seeded change C09-5: 0x85 is NEL, but also the last byte of U+2005).
                const U: &[&str] = &[
                    "\u{a0}", "\u{1680}", "\u{2000}", "\u{2001}", "\u{2002}", "\u{2003}", "\u{2004}", "\u{2005}", "\u{2006}",
                    "\u{2007}", "\u{2008}", "\u{2009}", "\u{200a}", "\u{202f}", "\u{205f}", "\u{3000}",
                ];
                if self.cont > 0 || self.in_math > 0 {
                    let s = self.t.pick(U);
                    self.p(s);
                    if self.t.coin() {
                        self.p(" ");
                    }
                } else {
                    self.p(" ");
                }
            }
        }
    }

    /// a gap where at least one blank is required (code)
    fn sp(&mut self) {
        if self.t.chance(self.cmt_gap) {
            self.blanks();
            if self.cont > 0 && self.t.chance(100) {
                self.line_comment();
            } else {
                self.block_comment();
            }
            self.blanks();
            return;
        }
        if self.cont > 0 && self.t.chance(24) {
            self.newline_indent();
        } else {
            self.blanks();
        }
    }

    /// a gap where nothing is required (code)
    fn osp(&mut self) {
        if self.t.chance(self.cmt_gap / 2) {
            if self.t.coin() {
                self.blanks();
            }
            if self.cont > 0 && self.t.chance(100) {
                self.line_comment();
            } else {
                self.block_comment();
            }
            if self.t.coin() {
                self.blanks();
            }
            return;
        }
        match self.t.weighted(&[10, 6, 1]) {
            0 => {}
            1 => self.blanks(),
            _ => {
                if self.cont > 0 {
                    self.newline_indent()
                }
            }
        }
    }

    /// gap after an opening / before a closing delimiter / after a comma in a delimited list
    fn lsp(&mut self, multiline: bool) {
        if self.t.chance(self.cmt / 2) {
            if multiline && self.t.coin() {
                self.p(" ");
                self.line_comment();
            } else {
                self.p(" ");
                self.block_comment();
                self.p(" ");
            }
            if multiline {
                self.newline_indent();
            }
            return;
        }
        if multiline {
            if self.t.chance(16) {
                self.p("\n");
            }
            self.newline_indent();
        } else {
            match self.t.weighted(&[8, 4]) {
                0 => {}
                _ => self.p(" "),
            }
        }
    }

    // ------------------------------------------------------------------ literals

    fn number(&mut self) {
        const N: &[&str] = &["1", "0", "42", "3.14", "1e3", "0x1F", "0b101", "0o17", "1.5e-2", "100000", "2.", ".5"];
        let s = self.t.pick(N);
        // ".5" is not a number in code; keep the odd ones rare
        let odd = (s == ".5" || s == "2.") && !self.t.chance(20);
        self.p(if odd { "7" } else { s });
    }

    fn numeric(&mut self) {
        const N: &[&str] = &["1pt", "2.5em", "10%", "3fr", "45deg", "1cm", "0.5in", "2mm", "1rad", "1e2pt"];
        let s = self.t.pick(N);
        self.p(s);
    }

    fn string(&mut self) {
        const S: &[&str] = &[
            "\"a\"", "\"\"", "\"hello world\"", "\"a\\n\\\"b\\\"\"", "\"a\nb\"", "\"\n  x\n\"", "\" lead\"", "\"a\n\n  b\n c\"",
            "\"// not a comment\"", "\"/* no */\"", "\"字\"", "\"\\u{1F600}\"", "\"a\\\\\"", "\"tab\\t\"",
        ];
        let lit = self.focus == Focus::Literals;
        let s = if lit || self.t.chance(60) { self.t.pick(S) } else { "\"s\"" };
        self.p(s);
    }

    fn raw_inline(&mut self) {
        const R: &[&str] = &["`r`", "`a b`", "` x `", "``", "`a  b`", "```rs let x```", "`#f(`", "```a`b```"];
        let s = self.t.pick(R);
        self.p(s);
    }

    fn raw_block(&mut self) {
        const R: &[&str] = &[
            "```\ncode\n```",
            "```rust\nfn main() {\n    x\n}\n```",
            "```py\n  indented\n    more\n  ```",
            "````\n```\ninner\n```\n````",
            "```\n\n  a\n\n```",
            "```typ #f(x) ```",
            "```c a\n b```",
            "```\n\ttab\n```",
            // blanks behind the opening fence / the language tag (trimmed by Typst, not content)
            "```py  \n\nprint(1)\n```",
            "``` \n```",
            "```typ  \nx ```",
            "```  \n  a\n  ```",
            "````  \n\n\n````",
        ];
        let s = self.t.pick(R);
        // re-indent continuation lines by the current markup indentation
        let ind = " ".repeat(self.indent);
        let s = s.replace('\n', &format!("\n{ind}"));
        self.p(&s);
    }

    fn leaf(&mut self) {
        match self.t.weighted(&[8, 6, 3, 4, 2, 1, 1, 1, 1]) {
            0 => {
                let i = self.ident();
                self.p(i)
            }
            1 => self.number(),
            2 => self.numeric(),
            3 => self.string(),
            4 => {
                let s = self.t.pick(&["none", "auto", "true", "false"]);
                self.p(s)
            }
            5 => self.p("<lbl>"),
            6 => self.raw_inline(),
            7 => {
                self.p("$");
                self.math_seq(2);
                self.p("$")
            }
            _ => self.p("()"),
        }
    }

    // ------------------------------------------------------------------ code expressions

    fn list_like(&mut self, open: &str, close: &str, mut item: impl FnMut(&mut Self, usize), n: usize, trailing: bool) {
        let multiline = n > 0 && self.t.chance(self.ml);
        self.p(open);
        self.cont += 1;
        if n > 0 {
            self.lsp(multiline);
        } else if self.t.chance(30) {
            self.p(" ");
        }
        for i in 0..n {
            item(self, i);
            if i + 1 < n {
                self.osp0();
                self.p(",");
                if multiline && self.t.chance(200) {
                    if self.t.chance(self.cmt) {
                        self.p(" ");
                        self.line_comment();
                    }
                    // blank lines between items
                    if self.t.chance(20) {
                        self.p("\n");
                    }
                    self.newline_indent();
                } else {
                    self.lsp(false);
                    if !self.out.ends_with([' ', '\n']) && self.t.chance(230) {
                        self.p(" ");
                    }
                }
            } else {
                if trailing || self.t.chance(40) {
                    self.osp0();
                    self.p(",");
                }
                self.lsp(multiline);
            }
        }
        self.cont -= 1;
        self.p(close);
    }

    /// optional space, rarely present (before commas / closing delimiters)
    fn osp0(&mut self) {
        if self.t.chance(16) {
            self.p(" ");
        } else if self.t.chance(self.cmt / 3) {
            self.p(" ");
            self.block_comment();
        }
    }

    fn array(&mut self, d: u32) {
        let n = self.t.weighted(&[2, 3, 3, 2, 1]);
        self.list_like("(", ")", |g, _| if g.t.chance(24) { g.p(".."); g.expr(d + 1) } else { g.expr(d + 1) }, n, n == 1);
    }

    fn dict(&mut self, d: u32) {
        let n = self.t.weighted(&[1, 3, 3, 2]);
        if n == 0 {
            self.p("(:)");
            return;
        }
        let lead_colon = self.t.chance(10);
        let mut first = true;
        let all_spread = self.t.chance(12);
        self.list_like(
            if lead_colon || all_spread { "(:" } else { "(" },
            ")",
            |g, _| {
                if first && (lead_colon || all_spread) {
                    first = false;
                }
                if all_spread || g.t.chance(20) {
                    g.p("..");
                    let i = g.ident();
                    g.p(i);
                } else if g.t.chance(40) {
                    g.string();
                    g.osp0();
                    g.p(":");
                    g.osp();
                    g.expr(d + 1);
                } else {
                    let i = g.ident();
                    g.p(i);
                    g.osp0();
                    g.p(":");
                    g.osp();
                    g.expr(d + 1);
                }
            },
            n,
            false,
        );
    }

    fn args(&mut self, d: u32) {
        let shape = self.t.weighted(&[8, 2, 2]);
        if shape != 1 {
            let n = self.t.weighted(&[2, 4, 3, 2, 1]);
            self.list_like(
                "(",
                ")",
                |g, _| match g.t.weighted(&[8, 3, 1]) {
                    0 => g.expr(d + 1),
                    1 => {
                        let i = g.ident();
                        g.p(i);
                        g.osp0();
                        g.p(":");
                        g.osp();
                        g.expr(d + 1);
                    }
                    _ => {
                        g.p("..");
                        g.expr(d + 1)
                    }
                },
                n,
                false,
            );
        }
        if shape != 0 {
            let k = 1 + self.t.below(2);
            for _ in 0..k {
                self.content_block(d + 1);
            }
        }
    }

    fn content_block(&mut self, d: u32) {
        self.p("[");
        let saved = (self.cont, self.indent);
        self.cont = 0;
        if self.budget > 0 && d < 6 && self.t.chance(24) {
            // a block-level element on the line of the opening bracket, ending on the line of the closing one:
            // heading / item marker, a few inline elements, optionally a `\` line break, then every kind of
            // edge (the blank before `]` is what keeps a trailing `\` from escaping the bracket; seeded
            // change C04-6)
            if self.t.chance(60) {
                self.p(" ");
            }
            let marker = self.t.pick(&["= ", "== ", "- ", "+ ", "1. ", "/ t: ", "= ", "=== "]);
            self.p(marker);
            let n = 1 + self.t.below(3);
            for i in 0..n {
                self.inline_elem(d + 1);
                if i + 1 < n {
                    self.p(" ")
                }
            }
            if self.t.chance(100) {
                self.p(" \\");
            }
            match self.t.weighted(&[3, 5, 2, 1]) {
                0 => {}
                1 => self.p(" "),
                2 => self.p("  "),
                _ => {
                    self.p("\n");
                    self.pad_markup_indent()
                }
            }
        } else if self.budget > 0 && d < 6 {
            self.markup_inline_seq(d + 1, true);
        } else {
            self.p("c");
        }
        self.cont = saved.0;
        self.indent = saved.1;
        self.p("]");
    }

    fn code_block(&mut self, d: u32) {
        self.p("{");
        let saved = self.cont;
        self.cont = 0;
        let n = self.t.weighted(&[1, 4, 3, 2]);
        let multiline = n > 1 || self.t.chance(self.ml);
        if n == 0 {
            if self.t.coin() {
                self.p(" ");
            }
        }
        for i in 0..n {
            if multiline {
                if self.t.chance(self.cmt) {
                    self.p(" ");
                    self.line_comment();
                    self.p(" ");
                } else {
                    self.newline_indent();
                }
                if self.t.chance(16) {
                    self.newline_indent();
                }
            } else {
                self.p(" ");
            }
            self.stmt(d + 1);
            if !multiline && i + 1 < n || self.t.chance(10) {
                self.p(";");
            }
        }
        if multiline {
            self.newline_indent();
        } else if n > 0 {
            self.p(" ");
        }
        self.cont = saved;
        self.p("}");
    }

    fn binop(&mut self) -> &'static str {
        self.t.pick(&["+", "-", "*", "/", "==", "!=", "<", "<=", ">", ">=", "and", "or", "in", "not in", "+", "and"])
    }

    fn params(&mut self, d: u32) {
        let n = self.t.weighted(&[1, 4, 3, 1]);
        self.list_like(
            "(",
            ")",
            |g, _| match g.t.weighted(&[8, 3, 1, 1, 1]) {
                0 => {
                    let i = g.ident();
                    g.p(i)
                }
                1 => {
                    let i = g.ident();
                    g.p(i);
                    g.p(":");
                    g.osp();
                    g.expr(d + 2);
                }
                2 => {
                    g.p("..");
                    let i = g.ident();
                    g.p(i)
                }
                3 => g.p("_"),
                _ => {
                    // a destructuring, or a pattern in one or two redundant pairs of parentheses
                    match g.t.weighted(&[5, 2, 2, 1]) {
                        0 => g.destructuring(d + 1),
                        1 => {
                            g.p("(");
                            g.destructuring(d + 1);
                            g.p(")")
                        }
                        2 => {
                            let i = g.ident();
                            g.p("((");
                            g.p(i);
                            g.p("))")
                        }
                        _ => {
                            let i = g.ident();
                            g.p("(");
                            g.p(i);
                            g.p(")")
                        }
                    }
                }
            },
            n,
            false,
        );
    }

    fn destructuring(&mut self, d: u32) {
        self.destructuring_with(d, false)
    }

    /// the left-hand side of a destructuring *assignment* also takes expression patterns, which Typst
    /// parses atomically (`(a.b.c, ..d.e, k: (x.y)) = v`)
    fn pattern_leaf(&mut self, assign: bool) {
        const E: &[&str] = &[
            "aaaaaaa.bbbbbbb.ccccccc", "z.draw.group", "d.at(0)", "(a.b.c)", "((x.y.z.w))", "a.b", "m.first().x", "(aaaaaaa.bbbbbbb.ccccccc)",
            "x.at(1).y.z",
        ];
        if assign && self.t.chance(110) {
            let e = self.t.pick(E);
            self.p(e)
        } else {
            let i = self.ident();
            self.p(i)
        }
    }

    fn destructuring_with(&mut self, d: u32, assign: bool) {
        let n = 1 + self.t.below(3);
        self.list_like(
            "(",
            ")",
            |g, _| match g.t.weighted(&[8, 2, 2, 1, 1]) {
                0 => g.pattern_leaf(assign),
                1 => {
                    g.p("..");
                    if g.t.coin() {
                        g.pattern_leaf(assign)
                    }
                }
                2 => {
                    let i = g.ident();
                    g.p(i);
                    g.p(":");
                    g.osp();
                    g.pattern_leaf(assign)
                }
                3 => g.p("_"),
                _ => {
                    if d < 4 {
                        g.destructuring_with(d + 1, assign)
                    } else {
                        g.p("z")
                    }
                }
            },
            n,
            n == 1,
        );
    }

    fn closure(&mut self, d: u32) {
        match self.t.weighted(&[4, 5, 1]) {
            0 => {
                let i = self.ident();
                self.p(i)
            }
            1 => self.params(d),
            _ => self.p("_"),
        }
        self.osp();
        self.p("=>");
        self.osp();
        // bodies that are statements rather than values (typstyle wraps them in optional braces, where a line
        // break ends the statement, instead of optional parentheses): assignment, return, let, not, unary
        // minus -- the whole family of seeded changes around convert_expr_with_optional_paren
        if self.t.chance(56) {
            match self.t.below(6) {
                0 => {
                    let i = self.ident();
                    self.p(i);
                    self.sp();
                    let op = self.t.pick(&["=", "+=", "="]);
                    self.p(op);
                    self.sp();
                }
                1 => {
                    self.p("return");
                    self.sp();
                }
                2 => {
                    self.p("let");
                    self.sp();
                    let i = self.ident();
                    self.p(i);
                    self.sp();
                    self.p("=");
                    self.sp();
                }
                3 => {
                    self.p("not");
                    self.sp();
                }
                4 => self.p("-"),
                _ => {
                    let i = self.ident();
                    self.p(i);
                    self.sp();
                    self.p("=");
                    self.sp();
                    self.p("not");
                    self.sp();
                }
            }
        }
        self.expr(d + 1);
    }

    pub fn expr(&mut self, d: u32) {
        self.budget -= 1;
        if self.budget <= 0 || d > 7 {
            self.leaf();
            return;
        }
        match self.t.weighted(&[10, 4, 3, 3, 2, 5, 5, 3, 3, 2, 2, 2, 1, 1, 1, 1]) {
            15 => {
                // an import / include as a parenthesised expression: line breaks (and with them line
                // comments) are allowed at every gap of the statement
                self.p("(");
                self.cont += 1;
                self.osp();
                if self.t.chance(200) {
                    self.import();
                } else {
                    self.p("include");
                    self.sp();
                    self.p("\"x.typ\"");
                }
                self.osp();
                self.cont -= 1;
                self.p(")");
            }
            0 => self.leaf(),
            1 => self.array(d),
            2 => self.dict(d),
            3 => {
                // parenthesised
                let ml = self.t.chance(self.ml / 2);
                self.p("(");
                self.cont += 1;
                self.lsp(ml);
                self.expr(d + 1);
                self.lsp(ml);
                self.cont -= 1;
                self.p(")");
            }
            4 => {
                let op = self.t.pick(&["-", "+", "not "]);
                self.p(op);
                if op == "not " && self.t.chance(self.cmt_gap) {
                    self.block_comment();
                    self.p(" ");
                }
                self.expr(d + 1);
            }
            5 => {
                // binary chain
                let n = 1 + self.t.weighted(&[5, 3, 2, 1]);
                self.expr(d + 1);
                for _ in 0..n {
                    self.sp();
                    let op = self.binop();
                    self.p(op);
                    if self.cont > 0 && self.t.chance(self.cmt / 3) {
                        // a line comment between the operator and its right operand
                        self.p(" ");
                        self.line_comment();
                        self.pad_indent();
                    } else {
                        self.sp();
                    }
                    self.expr(d + 1);
                }
            }
            6 => {
                // call
                let f = self.t.pick(FUNCS);
                self.p(f);
                self.args(d);
            }
            7 => {
                // method / dot chain
                let i = self.ident();
                self.p(i);
                let n = 1 + self.t.weighted(&[3, 3, 2, 1]);
                for _ in 0..n {
                    if self.cont > 0 && self.t.chance(self.ml / 3) {
                        self.newline_indent();
                        if self.t.chance(self.cmt) {
                            self.line_comment();
                            self.p("  ");
                        }
                    }
                    if self.t.chance(self.cmt / 3) {
                        self.p(" ");
                        self.block_comment();
                        if self.t.coin() {
                            self.p(" ");
                        }
                    }
                    self.p(".");
                    // between the dot and the method name (only where a line break cannot end the statement):
                    // a comment, with or without a line break behind it (seeded change C04-8)
                    if self.exotic && self.cont > 0 && self.t.chance(self.cmt_gap / 3) {
                        if self.t.chance(80) {
                            self.line_comment();
                            self.p(" ");
                        } else {
                            self.block_comment();
                            if self.t.coin() {
                                self.newline_indent();
                            }
                        }
                    }
                    let m = self.t.pick(&["map", "filter", "at", "len", "join", "first", "rev", "pos", "x", "fold"]);
                    self.p(m);
                    if self.t.chance(170) {
                        self.args(d + 1);
                    }
                }
            }
            8 => self.closure(d),
            9 => self.code_block(d),
            10 => self.content_block(d),
            11 => self.conditional(d),
            12 => {
                self.p("context");
                self.sp();
                self.expr(d + 1)
            }
            13 if self.t.coin() => {
                // ident.f1.f2(args): blanks or line breaks before the dots, one call at the end
                let i = self.t.pick(&["std", "aaa", "calc", "long-identifier-name", "x"]);
                self.p(i);
                let n = 2 + self.t.below(3);
                for _ in 0..n {
                    match self.t.weighted(&[4, 3, if self.cont > 0 { 3 } else { 0 }]) {
                        0 => {}
                        1 => {
                            let k = 1 + self.t.below(8);
                            for _ in 0..k {
                                self.p(" ");
                            }
                        }
                        _ => self.newline_indent(),
                    }
                    self.p(".");
                    let m = self.t.pick(&["math", "vec", "bbb", "ccc", "with", "where", "field-name"]);
                    self.p(m);
                }
                self.args(d + 1);
            }
            13 => {
                // field access on a call / paren
                self.p("(");
                self.expr(d + 1);
                self.p(").");
                let i = self.ident();
                self.p(i);
            }
            _ => {
                // assignment-like binary (lowest precedence): only as statement; wrap
                self.p("(");
                let i = self.ident();
                self.p(i);
                self.sp();
                let op = self.t.pick(&["=", "+=", "-=", "*=", "/="]);
                self.p(op);
                self.sp();
                self.expr(d + 1);
                self.p(")");
            }
        }
    }

    fn conditional(&mut self, d: u32) {
        self.p("if");
        self.sp();
        self.expr(d + 2);
        self.sp();
        self.body(d);
        let n = self.t.weighted(&[4, 4, 2]);
        for i in 0..n {
            self.sp_or_nl_else();
            self.p("else");
            if i + 1 < n {
                self.sp();
                self.p("if");
                self.sp();
                self.expr(d + 2);
            }
            self.sp();
            self.body(d);
        }
    }

    fn sp_or_nl_else(&mut self) {
        // `else` may sit on the next line after `}`
        if self.t.chance(30) {
            self.newline_indent();
        } else {
            self.sp();
        }
    }

    fn body(&mut self, d: u32) {
        if self.t.chance(190) {
            self.code_block(d + 1)
        } else {
            self.content_block(d + 1)
        }
    }

    pub fn stmt(&mut self, d: u32) {
        self.budget -= 1;
        if self.budget <= 0 || d > 7 {
            self.leaf();
            return;
        }
        let wi = if self.focus == Focus::Imports { 40 } else { 2 };
        match self.t.weighted(&[8, 6, 2, 2, 2, 2, 2, wi, 1, 1, 1, 2]) {
            0 => self.expr(d),
            1 => {
                // let
                self.p("let");
                self.sp();
                match self.t.weighted(&[6, 3, 2, 1, 1]) {
                    0 => {
                        let i = self.ident();
                        self.p(i);
                        self.sp();
                        self.p("=");
                        self.sp();
                        self.expr(d + 1);
                    }
                    1 => {
                        let i = self.ident();
                        self.p(i);
                        self.params(d);
                        self.sp();
                        self.p("=");
                        self.sp();
                        self.expr(d + 1);
                    }
                    2 => {
                        self.destructuring(d);
                        self.sp();
                        self.p("=");
                        self.sp();
                        self.expr(d + 1);
                    }
                    3 => {
                        let i = self.ident();
                        self.p(i)
                    }
                    _ => {
                        self.p("_");
                        self.sp();
                        self.p("=");
                        self.sp();
                        self.expr(d + 1);
                    }
                }
            }
            2 => {
                self.p("set");
                self.sp();
                // targets with 0..3 dots: the target of a set rule is a path, not an expression (it cannot be
                // parenthesised; seeded change C01-5)
                let f = self.t.pick(&[
                    "text", "par", "page", "heading", "f", "a.b", "c./**/f", "text", "par", "std.table.cell", "a.b.c", "pkg.theme.slide.title",
                    "std.text",
                ]);
                self.p(f);
                self.args_paren_only(d);
                if self.t.chance(20) {
                    self.p("[c]");
                }
                if self.t.chance(40) {
                    self.sp();
                    self.p("if");
                    self.sp();
                    self.expr(d + 2);
                }
            }
            3 => {
                self.p("show");
                match self.t.weighted(&[3, 3, 2, 2]) {
                    0 => {}
                    1 => {
                        self.sp();
                        self.p("heading")
                    }
                    2 => {
                        self.sp();
                        let f = self.t.pick(&["heading.where(level: 1)", "std.table.cell", "a.b.c", "heading.where(level: 1)"]);
                        self.p(f)
                    }
                    _ => {
                        self.sp();
                        self.string()
                    }
                }
                self.osp0();
                self.p(":");
                self.sp();
                match self.t.weighted(&[3, 3, 2]) {
                    0 => self.closure(d + 1),
                    1 => {
                        self.p("set");
                        self.sp();
                        let f = self.t.pick(&["text", "text", "std.text", "std.table.cell", "a.b.c.d"]);
                        self.p(f);
                        self.args_paren_only(d)
                    }
                    _ => self.expr(d + 1),
                }
            }
            4 => self.conditional(d),
            5 => {
                self.p("for");
                self.sp();
                match self.t.weighted(&[5, 3, 1]) {
                    0 => {
                        let i = self.ident();
                        self.p(i)
                    }
                    1 => self.destructuring(d),
                    _ => self.p("_"),
                }
                self.sp();
                self.p("in");
                self.sp();
                self.expr(d + 2);
                self.sp();
                self.body(d);
            }
            6 => {
                self.p("while");
                self.sp();
                self.expr(d + 2);
                self.sp();
                self.body(d);
            }
            7 => self.import(),
            8 => {
                self.p("include");
                self.sp();
                self.p("\"a.typ\"")
            }
            9 => {
                let k = self.t.pick(&["break", "continue", "return"]);
                self.p(k);
                if k == "return" && self.t.coin() {
                    self.sp();
                    self.expr(d + 1)
                }
            }
            10 => {
                // destructuring assignment
                self.destructuring_with(d, true);
                self.sp();
                self.p("=");
                self.sp();
                self.expr(d + 1);
            }
            _ => {
                let i = self.ident();
                self.p(i);
                self.sp();
                let op = self.t.pick(&["=", "+=", "-=", "*=", "/="]);
                self.p(op);
                self.sp();
                self.expr(d + 1);
            }
        }
    }

    fn args_paren_only(&mut self, d: u32) {
        let n = self.t.weighted(&[1, 4, 3]);
        self.list_like(
            "(",
            ")",
            |g, _| {
                if g.t.chance(170) {
                    let i = g.ident();
                    g.p(i);
                    g.p(":");
                    g.osp();
                }
                g.expr(d + 2)
            },
            n,
            false,
        );
    }

    pub fn import(&mut self) {
        self.p("import");
        self.sp();
        let src = self.t.pick(&["\"a.typ\"", "\"@preview/pkg:0.1.0\"", "mod", "a.b"]);
        self.p(src);
        if self.t.chance(40) {
            self.sp();
            self.p("as");
            self.sp();
            let i = self.ident();
            self.p(i);
        }
        match self.t.weighted(&[2, 2, 10]) {
            0 => {}
            1 => {
                self.osp0();
                self.p(":");
                self.sp();
                self.p("*")
            }
            _ => {
                if self.t.chance(self.cmt / 2) {
                    self.p(" ");
                    self.block_comment();
                } else {
                    self.osp0();
                }
                self.p(":");
                let paren = self.t.chance(80);
                let n = 1 + self.t.weighted(&[2, 4, 4, 3, 2]);
                const NAMES: &[&str] = &["b", "a", "c", "Z", "z", "aa", "a1", "a-b", "a_b", "B", "d.e", "d.a", "x.y.z", "d . e", "a .b", "x. y .z", "a-c"];
                let item = |g: &mut Self, _i: usize| {
                    let nm = g.t.pick(NAMES);
                    g.p(nm);
                    if g.t.chance(70) {
                        if g.t.chance(40) {
                            g.p("  ")
                        } else {
                            g.sp()
                        }
                        g.p("as");
                        g.sp();
                        let r = g.t.pick(NAMES);
                        g.p(r.split('.').next_back().unwrap());
                    }
                };
                if paren {
                    self.osp();
                    self.list_like("(", ")", item, n, false);
                } else {
                    self.p(" ");
                    let mut item = item;
                    for i in 0..n {
                        item(self, i);
                        if i + 1 < n {
                            self.osp0();
                            self.p(",");
                            self.blanks();
                            if self.t.chance(self.cmt) {
                                self.block_comment();
                                self.p(" ");
                            }
                        } else if self.t.chance(30) {
                            self.p(",");
                        }
                    }
                }
            }
        }
    }

    // ------------------------------------------------------------------ math

    fn math_atom(&mut self, d: u32) {
        self.budget -= 1;
        if self.budget <= 0 || d > 5 {
            let s = self.t.pick(&["x", "y", "1", "alpha", "+", "a"]);
            self.p(s);
            return;
        }
        match self.t.weighted(&[10, 4, 4, 3, 3, 3, 3, 2, 3, 2, 2, 2, 1, 1, 2]) {
            0 => {
                let s = self.t.pick(&["x", "y", "a", "b", "n", "k", "z"]);
                self.p(s)
            }
            1 => {
                let s = self.t.pick(&["1", "2", "10", "3.5", "0"]);
                self.p(s)
            }
            2 => {
                let s = self.t.pick(&["alpha", "beta", "sum", "arrow.r", "RR", "dif", "infinity", "dots.h", "pi"]);
                self.p(s)
            }
            3 => {
                let s = self.t.pick(&["+", "-", "=", "<=", "->", "!=", "=>", "*", ":=", "<", ">", ","]);
                self.p(s)
            }
            4 => {
                // attachment
                self.math_small(d);
                let k = self.t.weighted(&[4, 4, 3]);
                if k != 1 {
                    self.math_gap_free();
                    self.p("_");
                    self.math_gap_free();
                    self.math_small(d + 1);
                }
                if k != 0 {
                    self.math_gap_free();
                    self.p("^");
                    self.math_gap_free();
                    self.math_small(d + 1);
                }
            }
            5 => {
                // fraction
                self.math_small(d + 1);
                self.math_gap_free();
                self.p("/");
                self.math_gap_free();
                self.math_small(d + 1);
            }
            6 => {
                // delimited
                let (o, c) = self.t.pick(&[("(", ")"), ("[", "]"), ("{", "}"), ("|", "|"), ("(", "]"), ("⟨", "⟩"), ("lr(", ")")]);
                self.p(o);
                let edge = self.t.weighted(&[5, 3, 1]);
                match edge {
                    1 => self.p(" "),
                    2 => self.newline_indent(),
                    _ => {}
                }
                self.math_seq(d + 1);
                if self.exotic && self.t.chance(self.cmt / 4) {
                    // a comment as the last thing before the closing delimiter
                    self.p(" ");
                    if self.t.chance(170) {
                        self.line_comment();
                        self.pad_indent();
                    } else {
                        self.block_comment();
                    }
                } else {
                    match if self.t.chance(200) { edge } else { self.t.below(3) } {
                        1 => self.p(" "),
                        2 => self.newline_indent(),
                        _ => {}
                    }
                }
                self.p(c);
            }
            7 => {
                let s = self.t.pick(&["\"text\"", "\"a b\"", "\"\""]);
                self.p(s)
            }
            8 => {
                // call
                let f = self.t.pick(&["f", "sin", "mat", "vec", "cases", "frac", "sqrt", "op", "binom"]);
                self.p(f);
                self.math_args(d + 1);
            }
            9 => {
                // embedded code
                self.p("#");
                match self.t.weighted(&[4, 3, 2, 2, 3]) {
                    0 => {
                        let i = self.ident();
                        self.p(i)
                    }
                    4 => {
                        // method chain written tightly (in math a line break would end the code)
                        let i = self.ident();
                        self.p(i);
                        let n = 1 + self.t.weighted(&[2, 4, 3, 1]);
                        for _ in 0..n {
                            self.p(".");
                            let m = self.t.pick(&["map", "filter", "at", "len", "join", "first", "rev", "pos", "x", "fold"]);
                            self.p(m);
                            if self.t.chance(190) {
                                let c = self.cont;
                                self.cont = 1;
                                self.args_paren_only(d + 2);
                                self.cont = c;
                            }
                        }
                    }
                    1 => {
                        let f = self.t.pick(FUNCS);
                        self.p(f);
                        let c = self.cont;
                        self.cont = 1;
                        self.args(d + 1);
                        self.cont = c;
                    }
                    2 => self.code_block(d + 1),
                    _ => {
                        self.p("(");
                        let c = self.cont;
                        self.cont = 1;
                        self.expr(d + 2);
                        self.cont = c;
                        self.p(")")
                    }
                }
                if self.t.chance(60) {
                    self.p(";")
                }
            }
            10 => self.p("&"),
            11 => {
                // a line break directly before a closing delimiter / separator is finding R11:
                // mostly avoided by construction (a word follows), rarely generated
                let r11 = self.exotic && self.t.chance(40);
                if !r11 && d > 0 {
                    self.p("z");
                    return;
                }
                self.p("\\");
                if self.t.coin() {
                    self.p("\n");
                    self.pad_indent();
                } else {
                    self.p(" ")
                }
                if !r11 {
                    self.p("w");
                }
            }
            12 => {
                let s = self.t.pick(&["x'", "f''", "√x", "∑", "ℝ", "\\#", "\\$"]);
                self.p(s)
            }
            13 => {
                self.p("√");
                self.math_small(d + 1)
            }
            _ => {
                let s = self.t.pick(&["x y", "a b c", "2x", "x(y)", "f (x)", "a.b", "a . b"]);
                self.p(s)
            }
        }
    }

    fn pad_indent(&mut self) {
        let n = self.t.below(5);
        for _ in 0..n {
            self.p(" ");
        }
    }

    fn math_gap_free(&mut self) {
        // Typst ignores blanks around _ ^ / and the root sign
        if self.t.chance(30) {
            self.p(" ");
        }
    }

    fn math_small(&mut self, d: u32) {
        match self.t.weighted(&[6, 3, 3, 3]) {
            0 => {
                let s = self.t.pick(&["x", "n", "1", "alpha", "i"]);
                self.p(s)
            }
            3 => {
                // embedded code as operand of an attachment / fraction / root, often ended by `;`
                self.p("#");
                match self.t.weighted(&[5, 3, 2]) {
                    0 => {
                        let i = self.ident();
                        self.p(i)
                    }
                    1 => {
                        let f = self.t.pick(FUNCS);
                        self.p(f);
                        let c = self.cont;
                        self.cont = 1;
                        self.args_paren_only(d + 2);
                        self.cont = c;
                    }
                    _ => {
                        self.p("(");
                        let c = self.cont;
                        self.cont = 1;
                        self.expr(d + 3);
                        self.cont = c;
                        self.p(")")
                    }
                }
                if self.t.chance(140) {
                    self.p(";")
                }
            }
            1 => {
                self.p("(");
                self.math_seq(d + 1);
                self.p(")")
            }
            _ => {
                let f = self.t.pick(&["f", "sin"]);
                self.p(f);
                self.p("(");
                self.math_seq(d + 1);
                self.p(")")
            }
        }
    }

    fn math_args(&mut self, d: u32) {
        self.p("(");
        let n = self.t.weighted(&[1, 4, 4, 2, 1]);
        let ml = n > 0 && self.t.chance(self.ml / 2);
        let two_d = self.t.chance(50);
        if ml {
            self.newline_indent()
        } else if self.t.chance(40) {
            self.p(" ")
        }
        for i in 0..n {
            if self.t.chance(30) {
                let nm = self.t.pick(&["delim", "gap", "a"]);
                self.p(nm);
                self.p(":");
                if self.t.chance(200) {
                    self.p(" ")
                }
            }
            if self.t.chance(20) {
                self.p("..")
            }
            self.math_seq(d + 1);
            if i + 1 < n {
                if self.t.chance(20) {
                    self.p(" ")
                }
                let semi = two_d && self.t.chance(90);
                self.p(if semi { ";" } else { "," });
                if ml && self.t.chance(160) {
                    self.newline_indent()
                } else if self.t.chance(200) {
                    self.p(" ")
                }
            } else if self.t.chance(30) {
                self.p(if two_d { ";" } else { "," });
            }
        }
        if ml {
            if n > 0 && self.t.chance(self.cmt / 2) {
                // a line comment as the last thing before the closing parenthesis
                self.p(" ");
                self.line_comment();
                self.pad_indent();
            } else {
                self.newline_indent()
            }
        } else if self.t.chance(30) {
            self.p(" ")
        }
        self.p(")");
    }

    fn math_seq(&mut self, d: u32) {
        let n = 1 + self.t.weighted(&[4, 5, 4, 2, 1]);
        for i in 0..n {
            self.math_atom(d);
            if i + 1 < n {
                // gap: none / space / newline / comment
                match self.t.weighted(&[3, 12, 1, if self.exotic && self.cmt > 30 { 3 } else { 0 }]) {
                    0 => {}
                    1 => self.p(" "),
                    2 => {
                        self.p("\n");
                        self.pad_indent()
                    }
                    _ => {
                        self.p(" ");
                        if self.t.chance(60) {
                            self.line_comment();
                            self.pad_indent();
                        } else {
                            self.block_comment();
                            self.p(" ");
                        }
                    }
                }
            }
        }
    }

    fn equation(&mut self) {
        self.in_math += 1;
        let block = self.t.chance(100);
        self.p("$");
        if block {
            if self.t.chance(100) {
                self.p("\n");
                self.pad_indent()
            } else {
                self.p(" ")
            }
        }
        self.math_seq(0);
        if self.t.chance(self.cmt / 2) {
            // a line comment as the last thing before the closing dollar
            self.p(" ");
            self.line_comment();
            self.pad_indent();
        } else if block {
            if self.t.chance(100) {
                self.p("\n");
                self.pad_indent()
            } else {
                self.p(" ")
            }
        }
        self.p("$");
        self.in_math -= 1;
    }

    // ------------------------------------------------------------------ markup

    fn word(&mut self) {
        let w = self.t.pick(WORDS);
        self.p(w);
    }

    fn embedded_code(&mut self, d: u32) {
        self.p("#");
        let saved = self.cont;
        self.cont = 0;
        match self.t.weighted(&[6, 5, 2, 2, 3, 2, 2]) {
            0 => {
                // call
                let f = self.t.pick(FUNCS);
                self.p(f);
                self.args(d + 1);
            }
            1 => {
                let i = self.ident();
                self.p(i);
                if self.t.chance(60) {
                    self.p(".");
                    let j = self.ident();
                    self.p(j);
                }
            }
            2 => self.code_block(d + 1),
            3 => {
                self.p("(");
                self.cont = 1;
                self.expr(d + 1);
                self.p(")")
            }
            4 => {
                // chain
                let i = self.ident();
                self.p(i);
                let n = 1 + self.t.below(3);
                for _ in 0..n {
                    self.p(".");
                    let m = self.t.pick(&["map", "at", "join", "len", "x"]);
                    self.p(m);
                    self.args(d + 2);
                }
            }
            5 => self.content_block(d + 1),
            _ => self.conditional(d + 1),
        }
        self.cont = saved;
        if self.t.chance(50) {
            self.p(";");
        }
    }

    fn inline_elem(&mut self, d: u32) {
        self.budget -= 1;
        let deep = self.budget <= 0 || d > 5;
        let (wm, wc) = match self.focus {
            Focus::Math => (30, 6),
            Focus::Code | Focus::Breaks | Focus::Comments | Focus::CommentsOff => (3, 24),
            Focus::Prose => (3, 6),
            Focus::Literals => (4, 16),
            _ => (6, 12),
        };
        match self.t.weighted(&[30, 3, 3, 3, 2, 2, 2, 2, 2, 2, if deep { 0 } else { wm }, if deep { 0 } else { wc }, 2, 1]) {
            0 => self.word(),
            1 => {
                if deep {
                    self.p("*s*")
                } else {
                    self.p("*");
                    self.markup_inline_seq(d + 1, false);
                    self.p("*")
                }
            }
            2 => {
                if deep {
                    self.p("_e_")
                } else {
                    self.p("_");
                    self.markup_inline_seq(d + 1, false);
                    self.p("_")
                }
            }
            3 => self.raw_inline(),
            4 => self.p("https://example.com/a?b=c"),
            5 => self.p("<lbl>"),
            6 => {
                self.p("@ref");
                if self.t.chance(80) {
                    self.p("[p. 1]")
                }
            }
            7 => {
                let e = self.t.pick(&["\\*", "\\#", "\\u{1F600}", "\\_", "\\\\", "\\$", "\\/"]);
                self.p(e)
            }
            8 => {
                let s = self.t.pick(&["~", "---", "--", "...", "-?"]);
                self.p(s)
            }
            9 => {
                let q = self.t.pick(&["\"quoted\"", "'single'", "it's"]);
                self.p(q)
            }
            10 => self.equation(),
            11 => self.embedded_code(d),
            12 => {
                self.p("\\");
                if self.t.chance(128) {
                    self.p("\n");
                    self.pad_markup_indent()
                } else {
                    self.p(" ")
                }
            }
            _ => {
                if self.t.coin() {
                    self.p("/* c */")
                } else {
                    self.p("// c\n");
                    self.pad_markup_indent()
                }
            }
        }
    }

    fn pad_markup_indent(&mut self) {
        for _ in 0..self.indent {
            self.p(" ");
        }
    }

    /// a run of inline elements, possibly over several lines (no paragraph break unless allowed)
    fn markup_inline_seq(&mut self, d: u32, allow_par: bool) {
        let edge = self.t.weighted(&[6, 3, 2]);
        match edge {
            1 => self.p(" "),
            2 => {
                self.p("\n");
                self.pad_markup_indent()
            }
            _ => {}
        }
        let n = 1 + self.t.weighted(&[4, 4, 3, 3, 2, 2, 1, 1]);
        let long = self.focus == Focus::Prose && self.t.chance(128);
        let n = if long { n + 12 } else { n };
        for i in 0..n {
            self.inline_elem(d);
            if i + 1 < n {
                match self.t.weighted(&[20, 3, if allow_par { 1 } else { 0 }, 1]) {
                    0 => self.p(" "),
                    1 => {
                        self.p("\n");
                        self.pad_markup_indent()
                    }
                    2 => {
                        self.p("\n\n");
                        self.pad_markup_indent()
                    }
                    _ => {}
                }
            }
        }
        match if self.t.chance(180) { edge } else { self.t.below(3) } {
            1 => self.p(" "),
            2 => {
                self.p("\n");
                self.pad_markup_indent()
            }
            _ => {}
        }
    }

    fn list_item(&mut self, d: u32) {
        let marker = self.t.pick(&["-", "+", "1.", "/", "-", "+"]);
        self.p(marker);
        self.p(" ");
        let body_indent = self.indent + 2;
        if marker == "/" {
            self.word();
            self.p(": ");
        }
        let saved = self.indent;
        self.indent = body_indent;
        // first line
        let n = 1 + self.t.below(4);
        for i in 0..n {
            self.inline_elem(d + 1);
            if i + 1 < n {
                self.p(" ")
            }
        }
        // continuation lines / nested items / inner paragraphs
        let k = if self.budget > 0 && d < 4 { self.t.weighted(&[5, 3, 2, 1]) } else { 0 };
        for _ in 0..k {
            if self.t.chance(40) {
                self.p("\n");
            }
            self.p("\n");
            self.pad_markup_indent();
            if self.t.chance(120) {
                self.list_item(d + 1);
            } else {
                let n = 1 + self.t.below(3);
                for i in 0..n {
                    self.inline_elem(d + 1);
                    if i + 1 < n {
                        self.p(" ")
                    }
                }
            }
        }
        self.indent = saved;
    }

    fn block(&mut self, d: u32) {
        self.budget -= 1;
        let (wl, ws) = match self.focus {
            Focus::Prose => (10, 2),
            Focus::Code | Focus::Comments | Focus::CommentsOff | Focus::Breaks | Focus::Imports | Focus::Literals => (2, 14),
            _ => (5, 6),
        };
        match self.t.weighted(&[10, 3, wl, ws, 2, 2, 1]) {
            0 => {
                // paragraph lines
                let lines = 1 + self.t.weighted(&[5, 3, 2]);
                for i in 0..lines {
                    let n = 1 + self.t.weighted(&[2, 3, 3, 3, 2, 2, 1]);
                    let n = if self.focus == Focus::Prose && self.t.chance(100) { n + 14 } else { n };
                    for j in 0..n {
                        self.inline_elem(d);
                        if j + 1 < n {
                            { let wide = self.t.chance(8); self.p(if wide { "  " } else { " " }) }
                        }
                    }
                    if i + 1 < lines {
                        self.p("\n")
                    }
                }
            }
            1 => {
                let lvl = 1 + self.t.below(3);
                for _ in 0..lvl {
                    self.p("=");
                }
                self.p(" ");
                let n = 1 + self.t.below(4);
                for j in 0..n {
                    self.inline_elem(d + 2);
                    if j + 1 < n {
                        self.p(" ")
                    }
                }
                if self.t.chance(40) {
                    self.p(" <lbl>")
                }
            }
            2 => {
                let n = 1 + self.t.weighted(&[3, 4, 2]);
                for i in 0..n {
                    self.list_item(d);
                    if i + 1 < n {
                        self.p("\n")
                    }
                }
            }
            3 => {
                // statement line: #let / #set / #show / #import ...
                self.p("#");
                let saved = self.cont;
                self.cont = 0;
                self.stmt(d);
                self.cont = saved;
                if self.t.chance(30) {
                    self.p(";")
                }
            }
            4 => self.raw_block(),
            5 => {
                // block equation on its own lines
                self.p("$ ");
                self.in_math += 1;
                self.math_seq(0);
                if self.t.chance(80) {
                    self.p(" \\\n  ");
                    self.math_seq(0);
                }
                self.in_math -= 1;
                self.p(" $");
            }
            _ => {
                if self.t.coin() {
                    self.p("// line comment")
                } else {
                    self.block_comment()
                }
            }
        }
    }

    pub fn markup_doc(&mut self) {
        let n = 1 + self.t.weighted(&[3, 4, 3, 2, 2, 1]);
        if self.t.chance(16) {
            self.p("\n")
        }
        for i in 0..n {
            self.block(0);
            if i + 1 < n {
                match self.t.weighted(&[6, 10, 2, 1]) {
                    0 => self.p("\n"),
                    1 => self.p("\n\n"),
                    2 => self.p("\n\n\n"),
                    _ => self.p("\n\n\n\n\n"),
                }
            }
        }
        match self.t.weighted(&[10, 2, 1, 1]) {
            0 => self.p("\n"),
            1 => {}
            2 => self.p("\n\n"),
            _ => self.p("  \n"),
        }
    }
}
