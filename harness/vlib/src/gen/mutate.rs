//! G2: corpus mutators. The result is NOT guaranteed to be well-formed: callers ask the parser.

use crate::corpus::Corpus;
use crate::syn::{self, ast, Flat, K};
use crate::tape::Tape;

pub const NEWLINES: [&str; 7] = ["\r\n", "\r", "\u{85}", "\u{2028}", "\u{2029}", "\u{b}", "\u{c}"];

fn splice(src: &str, s: usize, e: usize, with: &str) -> String {
    let mut t = String::with_capacity(src.len() + with.len());
    t.push_str(&src[..s]);
    t.push_str(with);
    t.push_str(&src[e..]);
    t
}

pub fn whitespace(t: &mut Tape) -> String {
    const WS: &[&str] = &[
        " ", "  ", "\n", "\n  ", "\n    ", "\n\n", " \n", "\t", "\n\n\n", "   ", "\n\t", " \n \n ", "", "\n\n\n\n  ",
        "\n ", "\n      ", "\n   ", "\u{2005}", " \u{a0}", "\u{3000}", "\u{2028}", "\u{85}", "\u{205f} ", "\u{1680}\n", "\u{2009}",
    ];
    t.pick(WS).to_string()
}

pub fn comment(t: &mut Tape) -> String {
    const CM: &[&str] = &[
        "/* c */",
        "// c\n",
        " /* c */ ",
        " // c\n",
        "/* a\n   b */",
        "/* a\n * b\n */",
        "/**/",
        "//\n",
        "\n// c\n",
        "/* c */\n",
        "\n/* c */",
        "/* x\n      y\n  z */",
        "// c\n\n",
        "/* c *//* d */",
        "/* 注 */",
    ];
    t.pick(CM).to_string()
}

fn is_code_expr_kind(k: K) -> bool {
    matches!(
        k,
        K::Ident
            | K::Int
            | K::Float
            | K::Numeric
            | K::Str
            | K::Bool
            | K::None
            | K::Auto
            | K::Array
            | K::Dict
            | K::FuncCall
            | K::FieldAccess
            | K::Binary
            | K::Unary
            | K::Closure
            | K::Parenthesized
            | K::CodeBlock
            | K::ContentBlock
            | K::Conditional
            | K::Contextual
    )
}

fn in_code_ctx(p: Option<K>) -> bool {
    matches!(
        p,
        Some(
            K::Args
                | K::Array
                | K::Dict
                | K::Named
                | K::Keyed
                | K::Binary
                | K::Unary
                | K::Parenthesized
                | K::Code
                | K::LetBinding
                | K::Closure
                | K::Conditional
                | K::WhileLoop
                | K::ForLoop
                | K::SetRule
                | K::ShowRule
                | K::FuncReturn
                | K::Spread
                | K::FieldAccess
                | K::FuncCall
                | K::DestructAssignment
                | K::Contextual
        )
    )
}

fn pick_idx(t: &mut Tape, flat: &[Flat], pred: impl Fn(&Flat) -> bool) -> Option<usize> {
    let idx: Vec<usize> = (0..flat.len()).filter(|&i| pred(&flat[i])).collect();
    if idx.is_empty() {
        None
    } else {
        Some(t.pick(&idx))
    }
}

fn one(t: &mut Tape, src: &str, corpus: &Corpus) -> String {
    let which = t.weighted(&[10, 10, 3, 3, 2, 5, 5, 2, 2, 2, 2, 2]);
    one_of(t, src, corpus, which)
}

fn one_of(t: &mut Tape, src: &str, corpus: &Corpus, which: usize) -> String {
    let root = syn::parse(src);
    let flat = syn::flatten(&root);
    match which {
        // respell a space
        0 => {
            if let Some(i) = pick_idx(t, &flat, |f| f.node.kind() == K::Space) {
                let mut ws = whitespace(t);
                // in markup only space, tab and newlines are blanks: any other White_Space character is text
                // there, and at the end of a line the final strip pass removes it (finding R72) -- kept rare
                // so that the search is not spent on it
                let markup = matches!(flat[i].parent, Some(K::Markup | K::Heading | K::ListItem | K::EnumItem | K::TermItem));
                if markup && !ws.is_ascii() && !t.chance(8) {
                    ws.retain(|c| c.is_ascii());
                    if ws.is_empty() {
                        ws.push(' ');
                    }
                }
                return splice(src, flat[i].start, flat[i].end, &ws);
            }
        }
        // insert a comment
        1 => {
            if crate::gen::grammar::exotic_mode() {
                // at any token boundary
                if let Some(i) = pick_idx(t, &flat, |f| syn::is_leaf(f.node) && f.parent != Some(K::Raw)) {
                    let at = if t.coin() { flat[i].start } else { flat[i].end };
                    let c = comment(t);
                    return splice(src, at, at, &c);
                }
            } else {
                // at a blank of a list, a code block or a piece of markup (the positions typstyle
                // has explicit layouts for); never inside equations or import statements, never in
                // front of a list/heading marker
                let ok = |j: usize| -> bool {
                    let f = &flat[j];
                    if f.node.kind() != K::Space {
                        return false;
                    }
                    if !matches!(f.parent, Some(K::Args | K::Array | K::Dict | K::Params | K::Destructuring | K::Code | K::Markup)) {
                        return false;
                    }
                    // ancestors
                    let mut p = f.parent_idx;
                    while let Some(pi) = p {
                        if matches!(flat[pi].node.kind(), K::Equation | K::Math | K::ModuleImport | K::Heading) {
                            return false;
                        }
                        p = flat[pi].parent_idx;
                    }
                    if f.parent == Some(K::Markup) {
                        // next sibling must not be a marker construct, previous must not be `#`-code
                        let next = flat.get(j + 1);
                        if next.is_some_and(|n| matches!(n.node.kind(), K::ListItem | K::EnumItem | K::TermItem | K::Heading)) {
                            return false;
                        }
                    }
                    true
                };
                let idx: Vec<usize> = (0..flat.len()).filter(|&j| ok(j)).collect();
                if !idx.is_empty() {
                    let i = t.pick(&idx);
                    let f = &flat[i];
                    let has_nl = syn::has_nl(f.node.text());
                    let block = ["/* c */", "/* a\n   b */", "/* a\n * b\n */", "/**/", "/* 注 */"];
                    return if has_nl {
                        match t.below(4) {
                            // end of the line
                            0 => splice(src, f.start, f.start, " // c"),
                            1 => splice(src, f.start, f.start, &format!(" {}", t.pick(&block))),
                            // own line
                            2 => splice(src, f.end, f.end, &format!("// c\n{}", &src[line_indent_start(src, f.end)..f.end])),
                            _ => splice(src, f.end, f.end, &format!("{}\n{}", t.pick(&block), &src[line_indent_start(src, f.end)..f.end])),
                        }
                    } else {
                        splice(src, f.end, f.end, &format!("{} ", t.pick(&block)))
                    };
                }
            }
        }
        // delete a node
        2 => {
            if let Some(i) = pick_idx(t, &flat, |f| f.depth > 0 && f.end > f.start) {
                return splice(src, flat[i].start, flat[i].end, "");
            }
        }
        // duplicate a node
        3 => {
            if let Some(i) = pick_idx(t, &flat, |f| f.depth > 0 && f.end > f.start && f.end - f.start < 400) {
                let txt = &src[flat[i].start..flat[i].end];
                let sep = t.pick(&["", " ", ", ", "\n", "; ", " + "]);
                return splice(src, flat[i].end, flat[i].end, &format!("{sep}{txt}"));
            }
        }
        // swap two siblings of the same kind
        4 => {
            if let Some(i) = pick_idx(t, &flat, |f| f.depth > 0 && !syn::is_leaf(f.node)) {
                let sibs: Vec<usize> = (0..flat.len())
                    .filter(|&j| j != i && flat[j].parent_idx == flat[i].parent_idx && flat[j].node.kind() == flat[i].node.kind())
                    .collect();
                if !sibs.is_empty() {
                    let j = t.pick(&sibs);
                    let (a, b) = if flat[i].start < flat[j].start { (i, j) } else { (j, i) };
                    let ta = &src[flat[a].start..flat[a].end];
                    let tb = &src[flat[b].start..flat[b].end];
                    let mut s = String::new();
                    s.push_str(&src[..flat[a].start]);
                    s.push_str(tb);
                    s.push_str(&src[flat[a].end..flat[b].start]);
                    s.push_str(ta);
                    s.push_str(&src[flat[b].end..]);
                    return s;
                }
            }
        }
        // replace an expression by an expression of another corpus item
        5 => {
            if let Some(i) = pick_idx(t, &flat, |f| is_code_expr_kind(f.node.kind()) && in_code_ctx(f.parent)) {
                let other = &corpus.items[t.pick(&corpus.wf)].text;
                let other = if other.len() > 6000 { &other[..floor_boundary(other, 6000)] } else { &other[..] };
                let oroot = syn::parse(other);
                let oflat = syn::flatten(&oroot);
                if let Some(j) = pick_idx(t, &oflat, |f| {
                    is_code_expr_kind(f.node.kind()) && in_code_ctx(f.parent) && f.end - f.start < 600
                }) {
                    return splice(src, flat[i].start, flat[i].end, &other[oflat[j].start..oflat[j].end]);
                }
            }
        }
        // wrap an expression
        6 => {
            if let Some(i) = pick_idx(t, &flat, |f| is_code_expr_kind(f.node.kind()) && in_code_ctx(f.parent)) {
                let x = &src[flat[i].start..flat[i].end];
                let w = match t.below(12) {
                    0 => format!("({x})"),
                    1 => format!("{{{x}}}"),
                    2 => format!("[#{x}]"),
                    3 => format!("f({x})"),
                    4 => format!("({x},)"),
                    5 => format!("(k: {x})"),
                    6 => format!("x => {x}"),
                    7 => format!("(({x}))"),
                    8 => format!("{x}.at(0)"),
                    9 => format!("-{x}"),
                    10 => format!("{x} + {x}"),
                    _ => format!("(\n{x}\n)"),
                };
                return splice(src, flat[i].start, flat[i].end, &w);
            }
        }
        // newline style of the whole text
        7 => {
            let nl = t.pick(&NEWLINES);
            return src.replace('\n', nl);
        }
        // re-indent a line
        8 => {
            let lines: Vec<&str> = src.split('\n').collect();
            if lines.len() > 1 {
                let i = t.below(lines.len());
                let ind = " ".repeat(t.below(9));
                let mut v: Vec<String> = lines.iter().map(|s| s.to_string()).collect();
                v[i] = format!("{ind}{}", lines[i].trim_start());
                return v.join("\n");
            }
        }
        // literal mutations
        9 => {
            if let Some(i) = pick_idx(t, &flat, |f| matches!(f.node.kind(), K::Str | K::Int | K::Float | K::Numeric)) {
                const LITS: &[&str] = &[
                    "\"a\nb\"", "\"a\\n\\\"b\"", "\"\n  x\n\"", "0x1F", "0b101", "0o17", "1e3", "1.5e-2", "2.5em", "10%", "3fr", "45deg",
                    "1.0", "\"\"", "\" lead\"", "\"a\n\n  b\n c\"", "1pt", "1000",
                ];
                return splice(src, flat[i].start, flat[i].end, t.pick(LITS));
            }
        }
        // trailing blanks / final newline
        10 => {
            return match t.below(4) {
                0 => src.trim_end().to_string(),
                1 => format!("{src}  "),
                2 => format!("{src}\n\n"),
                _ => src.replace('\n', " \n"),
            };
        }
        // turn a space in markup into a line break and vice versa
        _ => {
            if let Some(i) = pick_idx(t, &flat, |f| f.node.kind() == K::Text && f.parent == Some(K::Markup) && f.node.text().contains(' ')) {
                let txt = flat[i].node.text();
                let pos: Vec<usize> = txt.match_indices(' ').map(|(p, _)| p).collect();
                let p = t.pick(&pos);
                return splice(src, flat[i].start + p, flat[i].start + p + 1, "\n");
            }
        }
    }
    let _ = ast::Markup::default;
    src.to_string()
}

/// start of the run of blanks that precedes `at` on its line
fn line_indent_start(src: &str, at: usize) -> usize {
    let mut i = at;
    let b = src.as_bytes();
    while i > 0 && (b[i - 1] == b' ' || b[i - 1] == b'\t') {
        i -= 1;
    }
    i
}

fn floor_boundary(s: &str, mut i: usize) -> usize {
    while !s.is_char_boundary(i) {
        i -= 1;
    }
    i
}

/// Mutations that only touch layout (blanks, comments, indentation, newline style): the meaning
/// of a program -- and what it costs to compile -- stays the same.
pub fn layout_only(t: &mut Tape, src: &str, corpus: &Corpus) -> String {
    let k = 1 + t.weighted(&[4, 4, 3, 2]);
    let mut cur = src.to_string();
    for _ in 0..k {
        // steer `one` to its layout cases by prefixing the tape choice: respell (0), comment (1),
        // newline style (7), re-indent (8), trailing blanks (10), split a text line (11)
        let which = t.pick(&[0u8, 0, 0, 1, 1, 7, 8, 10, 11]);
        cur = one_of(t, &cur, corpus, which as usize);
    }
    cur
}

pub fn mutate(t: &mut Tape, src: &str, corpus: &Corpus) -> String {
    let k = 1 + t.weighted(&[6, 3, 2, 1]);
    let mut cur = src.to_string();
    for _ in 0..k {
        cur = one(t, &cur, corpus);
        if cur.len() > 100_000 {
            break;
        }
    }
    cur
}
