//! The formatter properties that need nothing but the library API (C01, C03–C13, C18, C19).

use serde::{Deserialize, Serialize};
use serde_json::{json, Value};

use crate::api::{Cfg, Fmt, RangeFmt};
use crate::engine::{Env, Prop, Stats, Tier, Verdict};
use crate::gen::{self, config, grammar::Focus, Mix};
use crate::oracle::{self, normal::NormOpts};
use crate::reduce;
use crate::syn::{self, K, SyntaxNode};
use crate::tape::Tape;

#[derive(Clone, Debug, Serialize, Deserialize)]
pub struct SrcCase {
    pub src: String,
    pub cfg: Cfg,
    /// C13 only
    #[serde(default, skip_serializing_if = "Option::is_none")]
    pub range: Option<(usize, usize)>,
    /// which generator produced it (G0f/G0s/G1/G2/...)
    #[serde(default)]
    pub origin: String,
}

#[derive(Clone, Copy, PartialEq, Eq)]
pub enum Which {
    C01,
    C03,
    C04,
    C06,
    C07,
    C08,
    C09,
    C10,
    C11,
    C12,
    C13,
    C19,
}

pub struct SrcProp {
    pub which: Which,
}

impl SrcProp {
    fn foci(&self) -> &'static [Focus] {
        match self.which {
            Which::C01 => &[Focus::Any, Focus::Code, Focus::Comments, Focus::Math, Focus::Prose, Focus::Breaks, Focus::Literals],
            Which::C03 => &[Focus::Comments, Focus::Breaks, Focus::Any, Focus::Code, Focus::Imports],
            Which::C04 => &[Focus::Comments, Focus::Code, Focus::Any, Focus::Math, Focus::Breaks],
            Which::C06 => &[Focus::Comments, Focus::Comments, Focus::CommentsOff, Focus::Imports],
            Which::C07 => &[Focus::Code, Focus::Any, Focus::Math, Focus::Breaks],
            Which::C08 => &[Focus::Prose, Focus::Any],
            Which::C09 => &[Focus::Math],
            Which::C10 => &[Focus::Literals, Focus::Code],
            Which::C11 => &[Focus::Any, Focus::Prose, Focus::Comments, Focus::Literals],
            Which::C12 => &[Focus::Breaks, Focus::Code, Focus::Comments, Focus::Any, Focus::Imports],
            Which::C13 => &[Focus::Any, Focus::Code, Focus::Math, Focus::Prose],
            Which::C19 => &[Focus::Imports],
        }
    }

    fn mix(&self) -> Mix {
        match self.which {
            Which::C19 => Mix { snippet: 1, file: 0, mutant: 3, grammar: 12 },
            Which::C12 => Mix { snippet: 3, file: 1, mutant: 6, grammar: 8 },
            _ => gen::DEFAULT_MIX,
        }
    }

    fn reorder_chance(&self) -> u32 {
        match self.which {
            Which::C01 | Which::C03 => 48,
            Which::C04 | Which::C11 => 24,
            // every public Config field varies unless the oracle needs the item order itself (C06, C10) or
            // sets the option itself (C19); seeded change C12-9 only exists with reordering on
            Which::C07 | Which::C08 | Which::C09 | Which::C12 => 24,
            _ => 0,
        }
    }

    /// (widths, tabs) of the deterministic sweep
    fn grid(&self, tier: Tier) -> (Vec<usize>, Vec<usize>) {
        let mut widths: Vec<usize> = match tier {
            Tier::Quick => config::SWEEP_WIDTHS.to_vec(),
            Tier::Thorough => {
                let mut w: Vec<usize> = (0..=130).collect();
                w.extend([160, 200, 300, config::HUGE]);
                w
            }
        };
        let mut tabs: Vec<usize> = match tier {
            Tier::Quick => vec![2, 4, 3, 1, 8],
            Tier::Thorough => (1..=8).collect(),
        };
        match self.which {
            // 13 format calls per case: a thinner grid
            Which::C12 => {
                widths = match tier {
                    Tier::Quick => vec![0, 13, 40, 80],
                    Tier::Thorough => vec![0, 1, 5, 13, 21, 40, 57, 80, 93, 120],
                };
                tabs = vec![2];
            }
            Which::C13 => {
                widths = match tier {
                    Tier::Quick => vec![0, 40, 80],
                    Tier::Thorough => vec![0, 13, 40, 80, 120],
                };
                tabs = match tier {
                    Tier::Quick => vec![2],
                    Tier::Thorough => vec![2, 4, 3],
                };
            }
            Which::C19 => {
                tabs = match tier {
                    Tier::Quick => vec![2, 4],
                    Tier::Thorough => vec![2, 4, 3, 1],
                };
            }
            _ => {}
        }
        (widths, tabs)
    }

    /// corpus items the sweep of this property visits
    fn sweep_items(&self, env: &Env) -> Vec<usize> {
        let c = env.corpus;
        match self.which {
            Which::C19 => c.wf.iter().copied().filter(|&i| c.items[i].text.contains("import")).collect(),
            Which::C07 => c.wf.iter().copied().filter(|&i| c.items[i].text.contains("@typstyle off")).collect(),
            Which::C09 => c.wf.iter().copied().filter(|&i| c.items[i].text.contains('$')).collect(),
            _ => c.wf.clone(),
        }
    }
}

fn fmt_or_skip(env: &Env, src: &str, cfg: &Cfg) -> Result<String, Verdict> {
    match env.f.format(src, cfg) {
        Fmt::Ok(s) => Ok(s),
        Fmt::Refused => Err(Verdict::skip("deferred_to_C05:refused-well-formed-input")),
        Fmt::Panic(_) => Err(Verdict::skip("deferred_to_C05:panic")),
    }
}

/// C13, exhaustive part of the sweep: every pair (start <= end) of character boundaries of every
/// well-formed corpus snippet of at most `max_len` bytes (plus one end past the text per start), at three
/// widths. Returns (snippet item, number of boundaries) and the prefix sums of the pair counts.
fn exhaustive_ranges(env: &Env) -> &'static (Vec<(usize, Vec<usize>)>, Vec<usize>) {
    static T: std::sync::OnceLock<(Vec<(usize, Vec<usize>)>, Vec<usize>)> = std::sync::OnceLock::new();
    T.get_or_init(|| {
        let max_len = match env.tier {
            Tier::Quick => 40,
            Tier::Thorough => 160,
        };
        let c = env.corpus;
        let mut snips = vec![];
        let mut prefix = vec![0usize];
        for &i in &c.wf_snips {
            let t = &c.items[i].text;
            if t.len() > max_len || t.trim().is_empty() {
                continue;
            }
            // boundaries 0..=len on char boundaries, plus one position past the end
            let mut b: Vec<usize> = (0..=t.len()).filter(|&k| t.is_char_boundary(k)).collect();
            b.push(t.len() + 7);
            let n = b.len();
            prefix.push(prefix.last().unwrap() + n * (n + 1) / 2);
            snips.push((i, b));
        }
        (snips, prefix)
    })
}

const EXH_WIDTHS: [usize; 3] = [80, 12, 0];

/// (width, blank_lines_upper_bound) pairs of the corpus sweep's third part
const BLANK_SWEEP: [(usize, usize); 12] = [(0, 0), (40, 0), (80, 0), (120, 0), (0, 1), (40, 1), (80, 1), (120, 1), (0, 3), (40, 3), (80, 3), (120, 3)];

fn labels_for(st: &mut Stats, c: &SrcCase, root: &SyntaxNode, out: &str) {
    st.label(&format!("origin:{}", c.origin));
    st.label_if(out != c.src, "output-differs-from-input");
    let mut has_line = false;
    let mut has_block = false;
    let mut has_math = false;
    let mut has_code = false;
    let mut has_list = false;
    syn::any_node(root, &mut |n| {
        match n.kind() {
            K::LineComment => has_line = true,
            K::BlockComment => has_block = true,
            K::Equation => has_math = true,
            K::CodeBlock | K::FuncCall | K::LetBinding => has_code = true,
            K::ListItem | K::EnumItem | K::TermItem => has_list = true,
            _ => {}
        }
        false
    });
    st.label_if(has_line, "has-line-comment");
    st.label_if(has_block, "has-block-comment");
    st.label_if(has_math, "has-math");
    st.label_if(has_code, "has-code");
    st.label_if(has_list, "has-list-items");
    st.label_if(c.src.chars().any(|ch| syn::is_nl(ch) && ch != '\n'), "non-LF-newline");
    st.label_if(!c.src.is_ascii(), "non-ascii");
    st.label_if(out.lines().count() > c.src.lines().count(), "more-lines-than-input");
    let w = c.cfg.width;
    st.label(match w {
        0 => "width:0",
        1..=20 => "width:1-20",
        21..=60 => "width:21-60",
        61..=130 => "width:61-130",
        131..=1000 => "width:131-1000",
        _ => "width:huge",
    });
    st.label(&format!("tab:{}", c.cfg.tab));
    st.label_if(c.cfg.reorder, "reorder:on");
    if c.cfg.blank != 2 {
        st.label(&format!("blank-bound:{}", if c.cfg.blank > 9 { "huge".to_string() } else { c.cfg.blank.to_string() }));
        // does the bound matter for this text? (a run of blank lines longer than the bound, or -- for a
        // bound above the default -- longer than the default)
        let mut run = 0usize;
        let mut longest = 0usize;
        for line in c.src.split('\n') {
            if line.trim().is_empty() {
                run += 1;
                longest = longest.max(run);
            } else {
                run = 0;
            }
        }
        st.label_if(longest > c.cfg.blank.min(2), "blank-bound:differs-from-default-and-input-has-longer-run");
    }
    st.label_if(syn::max_depth(root) > 12, "tree-depth>12");
}

impl Prop for SrcProp {
    type Case = SrcCase;

    fn id(&self) -> &'static str {
        match self.which {
            Which::C01 => "C01",
            Which::C03 => "C03",
            Which::C04 => "C04",
            Which::C06 => "C06",
            Which::C07 => "C07",
            Which::C08 => "C08",
            Which::C09 => "C09",
            Which::C10 => "C10",
            Which::C11 => "C11",
            Which::C12 => "C12",
            Which::C13 => "C13",
            Which::C19 => "C19",
        }
    }

    fn rule(&self) -> String {
        let common = "Cases = deterministic sweep of the vendored fixture corpus (whole files and paragraph snippets) over a width x indent grid the test-suite never uses, plus proptest-generated tapes decoded into (source, config): G1 grammar generator (markup/code/math with layout phase), G2 corpus mutators, G0 picks; configs from G6 (widths 0/1/small/40/80/120/uniform/huge/width-targeted, tab 1..8, blank_lines_upper_bound 2 in four cases of five, else 0/1/3/4..9/2^20; the sweep adds bounds 0, 1, 3 at four widths). Blanks in code and math are drawn from all Unicode White_Space characters. Only text the Typst parser accepts is kept (rejected is counted). ";
        let specific = match self.which {
            Which::C01 => "Oracle: N(parse(in)) == N(parse(fmt(in))) for the Typst-semantic normal form N. Non-trivial: fmt(in) != in and the input has >= 3 inner nodes.",
            Which::C03 => "Oracle: fmt(fmt(x)) == fmt(x) byte for byte. Non-trivial: first pass changed the text and the output has more lines than the input or contains a comment.",
            Which::C04 => "Oracle: the output parses without errors. Non-trivial: output differs from input.",
            Which::C06 => "Oracle: comment sequence, normalised texts and number of preceding words equal; word sequence equal. Non-trivial: input has >= 1 comment and output differs from input.",
            Which::C07 => "Generator inserts a directive before an expression/code body/equation body and uglifies the node. Oracle: directives kept, node text verbatim modulo blanks at line ends, and lines outside the top-level line group of the node equal to the run with the directive neutralised. Non-trivial: without the directive the node would have been changed.",
            Which::C08 => "Oracle: per Markup node the sequence of words/inline markers and SP/NL/PAR(n) classes is unchanged modulo outer edges. Non-trivial: some markup node has >= 2 lines, or a line longer than max_width.",
            Which::C09 => "Oracle: per Math/MathDelimited node the none/SP/NL class of every gap between atoms is unchanged; Equation::block() unchanged. Non-trivial: >= 1 math node with >= 2 atoms and both spaced and unspaced gaps.",
            Which::C10 => "Oracle: sequence of literal tokens (Str, numbers, identifiers, labels, refs, links, escapes; Raw as block/lang/lines/fence) unchanged. Non-trivial: >= 1 multi-line or nested literal and output differs from input.",
            Which::C11 => "Oracle: output non-empty, ends in LF, no line ends in a char::is_whitespace character. Non-trivial: the input itself violates that.",
            Which::C12 => "Oracle: (i) outputs for tab 1..8 at width 2^20 have equal lines modulo leading spaces and lead(t1)*t2 == lead(t2)*t1; (ii) at the case's width every non-exempt line is indented by a multiple of the unit for units 3,4,5,7,8. Exempt: continuation lines of comments, strings, raw, disabled nodes. Non-trivial: output has >= 2 distinct non-zero indentation levels.",
            Which::C13 => "Cases add a byte range (empty / whitespace-only / exact node / exact inner node / mid-token / whole / past the end; for one case in three the width is narrower than the request, so the selected node has to be broken); sources may be erroneous. The sweep also enumerates EVERY pair of character boundaries (start <= end, plus one end past the text) of every well-formed corpus snippet of at most 40 bytes (thorough: 160) at widths 80 / 12 / 0: exhaustive over that sub-space (label origin:G0s:all-ranges). Oracle: no panic; Ok((r,t)) => r is the exact range of a non-erroneous Markup/Expr/Pattern node covering the trimmed request, splice is well-formed and N-equal to the source; smallest covering node erroneous => Err. Non-trivial: Ok and t differs from the node's text.",
            Which::C19 => "Oracle: off keeps item order; on is a sorted permutation unless the import has a comment or binds a name twice (then order kept); undoing the permutation in the on-output gives the off-output byte for byte. Non-trivial: >= 1 import with >= 2 items that is not already sorted.",
        };
        format!("{common}{specific}")
    }

    fn assumptions(&self) -> Vec<String> {
        let mut v = vec![
            "typst-syntax 0.13.1 (the parser typstyle itself uses) decides well-formedness and provides the trees".to_string(),
            "a panic or refusal of a well-formed input is reported by C05 only; output with syntax errors by C04 only (single-homing)".to_string(),
            "inputs containing the trigger of an active known finding are excluded and counted (skipped.excluded_by_known_finding:*)".to_string(),
        ];
        if matches!(self.which, Which::C01 | Which::C13) {
            v.push("the normal form N drops exactly what typst_syntax::ast accessors hide from evaluation (DESIGN.md 4.1)".into());
        }
        v
    }

    fn sweep_len(&self, env: &Env) -> usize {
        if self.which == Which::C07 && false {
            return 0;
        }
        let (w, t) = self.grid(env.tier);
        let items = self.sweep_items(env).len();
        let reorder = matches!(self.which, Which::C01 | Which::C03) as usize;
        let base = items * w.len() * t.len() + reorder * self.sweep_items_import(env).len() * w.len() + items * BLANK_SWEEP.len();
        if self.which == Which::C13 {
            base + exhaustive_ranges(env).1.last().copied().unwrap_or(0) * EXH_WIDTHS.len()
        } else {
            base
        }
    }

    fn sweep_case(&self, i: usize, env: &Env) -> Option<SrcCase> {
        let (w, t) = self.grid(env.tier);
        let items = self.sweep_items(env);
        let per = w.len() * t.len();
        let main = items.len() * per;
        if self.which == Which::C13 {
            let base = main + items.len() * BLANK_SWEEP.len();
            if i >= base {
                // exhaustive part: index -> (width, snippet, pair of boundaries)
                let (snips, prefix) = exhaustive_ranges(env);
                let j = i - base;
                let width = EXH_WIDTHS[j % EXH_WIDTHS.len()];
                let j = j / EXH_WIDTHS.len();
                let k = prefix.partition_point(|&p| p <= j) - 1;
                let (item, b) = &snips[k];
                let mut r = j - prefix[k];
                // r-th pair (a <= b) in lexicographic order
                let n = b.len();
                let mut a = 0;
                while r >= n - a {
                    r -= n - a;
                    a += 1;
                }
                let it = &env.corpus.items[*item];
                return Some(SrcCase {
                    src: it.text.clone(),
                    cfg: Cfg { width, tab: 2, reorder: false, blank: 2 },
                    range: Some((b[a].min(it.text.len()), b[a + r])),
                    origin: "G0s:all-ranges".into(),
                });
            }
        }
        let reorder_part = if matches!(self.which, Which::C01 | Which::C03) { self.sweep_items_import(env).len() * w.len() } else { 0 };
        let mut blank = 2;
        let (item, width, tab, reorder) = if i < main {
            let it = items[i / per];
            let r = i % per;
            (it, w[r / t.len()], t[r % t.len()], false)
        } else if i < main + reorder_part {
            let j = i - main;
            let imp = self.sweep_items_import(env);
            (imp[j / w.len()], w[j % w.len()], 2, true)
        } else {
            // the blank-line bound (no CLI flag, never set by the test-suite): 0, 1 and 3 at four widths
            let j = i - main - reorder_part;
            let (wd, b) = BLANK_SWEEP[j % BLANK_SWEEP.len()];
            blank = b;
            (items[j / BLANK_SWEEP.len()], wd, 2, false)
        };
        let it = &env.corpus.items[item];
        let mut c = SrcCase {
            src: it.text.clone(),
            cfg: Cfg { width, tab, reorder, blank },
            range: None,
            origin: if it.whole { "G0f".into() } else { "G0s".into() },
        };
        if self.which == Which::C13 {
            // deterministic ranges: derived from the index
            let mut seed = syn::splitmix64(i as u64 ^ 0x13);
            let bytes: Vec<u8> = (0..16)
                .map(|_| {
                    seed = syn::splitmix64(seed);
                    seed as u8
                })
                .collect();
            let mut tp = Tape::new(&bytes);
            c.range = Some(pick_range(&mut tp, &c.src));
        }
        Some(c)
    }

    fn gen_cases(&self, tier: Tier) -> u64 {
        // quick tiers are fixed work sized for 20-40 s on 16 cores; thorough = 6x
        let q = match self.which {
            Which::C12 => 120_000,
            Which::C13 => 500_000,
            Which::C07 => 400_000,
            _ => 800_000,
        };
        match tier {
            Tier::Quick => q,
            Tier::Thorough => q * 6,
        }
    }

    fn tape_max(&self) -> usize {
        1024
    }

    fn decode(&self, t: &mut Tape, env: &Env, st: &mut Stats) -> Option<SrcCase> {
        let focus = t.pick(self.foci());
        let (mut src, origin) = gen::source(t, env.corpus, self.mix(), focus);
        let mut origin = origin.to_string();
        if src.len() > 64 * 1024 {
            return None;
        }
        match self.which {
            Which::C13 => {
                // erroneous sources are part of the domain (refusal / no-panic)
                if t.chance(40) {
                    src = gen::bytes::damage(t, &src);
                    origin.push_str("+damaged");
                }
                let range = pick_range(t, &src);
                let mut cfg = config::config(t, env.f, &src, 24);
                // range-targeted width: narrower than the request itself, so that whatever node is selected
                // cannot stay on one line (a node is only ever laid out wrongly when it has to be broken; found
                // missing when a sub-agent ran into the defect repaired by 7aa0fdd)
                let span = range.1.min(src.len()).saturating_sub(range.0);
                if (2..400).contains(&span) && t.chance(90) {
                    cfg.width = match t.below(3) {
                        0 => t.below(span),
                        1 => span - 1,
                        _ => span / 2,
                    };
                    st.label("range:width-narrower-than-request");
                }
                return Some(SrcCase { src, cfg, range: Some(range), origin });
            }
            Which::C07 => {
                if !syn::wf(&src) {
                    return None;
                }
                let (s2, cls) = insert_directive(t, &src)?;
                st.label(&format!("directive-at:{cls}"));
                src = s2;
                origin.push_str("+off");
            }
            Which::C11 => {
                if t.chance(40) {
                    src = degenerate_doc(t);
                    origin = "degenerate".into();
                }
            }
            _ => {}
        }
        if !syn::wf(&src) {
            return None;
        }
        let cfg = config::config(t, env.f, &src, self.reorder_chance());
        Some(SrcCase { src, cfg, range: None, origin })
    }

    fn excluded(&self, c: &SrcCase, env: &Env) -> Option<String> {
        let root = syn::parse(&c.src);
        if self.which == Which::C13 {
            // the splice must be tree-equivalent "as in C01": every finding recorded for C01 applies
            // to the text that range formatting returns as well (for every indent unit: the result is
            // indented relative to the node's line, not laid out afresh)
            if let Some(id) = env.known.excluded("C01", &c.src, &root, None) {
                return Some(id);
            }
            // R14: the node range formatting selects for this request is a math node (it lies inside
            // an equation and not inside code embedded with `#`). Which node that is follows from the
            // documented selection rule (smallest Expr/Pattern node covering the trimmed request, the
            // first one in document order), modelled here on the input alone.
            if env.known.active("C13").iter().any(|x| x == "R14") {
                if let Some((rs, re)) = c.range {
                    if r14_math_node_selected(&c.src, &root, rs, re) {
                        return Some("R14".into());
                    }
                }
            }
        }
        if env.known.active(self.id()).is_empty() {
            return None;
        }
        // C12 formats every case with all units 1..8
        env.known.excluded(self.id(), &c.src, &root, if self.which == Which::C12 { None } else { Some(&c.cfg) })
    }

    fn excluded_up_front(&self, c: &SrcCase, env: &Env) -> Option<String> {
        // R1 (blanks at line ends inside multi-line strings / raw text): the trigger is precise (4 of 5
        // inputs that contain it fail) and frequent, shrinking each of those would dominate the run
        let id = if self.which == Which::C13 { "C01" } else { self.id() };
        if !env.known.active(id).iter().any(|x| x == "R1") {
            return None;
        }
        let root = syn::parse(&c.src);
        crate::known::triggers(&c.src, &root).contains(&"R1").then(|| "R1".to_string())
    }

    fn check(&self, c: &SrcCase, env: &Env, st: &mut Stats) -> Verdict {
        match self.which {
            Which::C13 => return check_range(c, env, st),
            Which::C12 => return check_indent(c, env, st),
            Which::C19 => return check_imports(c, env, st),
            _ => {}
        }
        let root = syn::parse(&c.src);
        if root.erroneous() {
            return Verdict::skip("input-not-well-formed");
        }
        let out = match fmt_or_skip(env, &c.src, &c.cfg) {
            Ok(o) => o,
            Err(v) => return v,
        };
        let changed = out != c.src;
        if self.which == Which::C11 {
            labels_for(st, c, &root, &out);
            return match oracle::hygiene::check(&out) {
                Ok(()) => Verdict::Pass { nontrivial: oracle::hygiene::input_dirty(&c.src) },
                Err((sig, d)) => Verdict::fail(sig, d),
            };
        }
        let oroot = syn::parse(&out);
        if self.which == Which::C04 {
            labels_for(st, c, &root, &out);
            if oroot.erroneous() {
                let (sig, detail) = error_context(&out, &oroot, &c.src, &root);
                return Verdict::fail(format!("C04:{sig}"), detail);
            }
            return Verdict::Pass { nontrivial: changed };
        }
        if oroot.erroneous() {
            return Verdict::skip("deferred_to_C04:output-has-syntax-errors");
        }
        labels_for(st, c, &root, &out);
        match self.which {
            Which::C01 => {
                let opts = NormOpts { sort_imports: c.cfg.reorder };
                let a = oracle::normal::normalize(&root, opts);
                let b = oracle::normal::normalize(&oroot, opts);
                match oracle::first_diff(&a, &b) {
                    None => Verdict::Pass { nontrivial: changed && syn::count_inner(&root) >= 3 },
                    Some((i, d)) => Verdict::fail(format!("C01:{}", norm_sig(&a, &b, i)), d),
                }
            }
            Which::C03 => {
                let out2 = match fmt_or_skip(env, &out, &c.cfg) {
                    Ok(o) => o,
                    Err(v) => return v,
                };
                if out2 == out {
                    let has_cmt = syn::any_node(&root, &mut |n| syn::is_comment(n.kind()));
                    Verdict::Pass { nontrivial: changed && (has_cmt || out.lines().count() > c.src.lines().count()) }
                } else {
                    let la: Vec<&str> = out.split('\n').collect();
                    let lb: Vec<&str> = out2.split('\n').collect();
                    let i = la.iter().zip(lb.iter()).position(|(x, y)| x != y).unwrap_or(la.len().min(lb.len()));
                    let sig = c03_sig(&out, &oroot, i);
                    Verdict::fail(
                        format!("C03:{sig}"),
                        format!(
                            "second pass differs at line {}: {:?} -> {:?}",
                            i + 1,
                            la.get(i).map(|s| syn::clip(s, 120)),
                            lb.get(i).map(|s| syn::clip(s, 120))
                        ),
                    )
                }
            }
            Which::C06 => match oracle::comments::check(&root, &oroot) {
                Ok(n) => {
                    // the main comparison runs with reordering off (item order is C19's business); a text with
                    // imports and comments is formatted once more with reordering on, where the comments
                    // themselves must still come out complete and in order (seeded change C06-7: comments inside import items change places)
                    if n >= 1 && c.src.contains("import") {
                        if let Fmt::Ok(on) = env.f.format(&c.src, &Cfg { reorder: true, ..c.cfg.clone() }) {
                            let onroot = syn::parse(&on);
                            if !onroot.erroneous() {
                                st.label("comments-and-imports:also-checked-with-reorder-on");
                                if let Err((sig, d)) = oracle::comments::check_order_only(&root, &onroot) {
                                    return Verdict::fail(sig, d);
                                }
                            }
                        }
                    }
                    Verdict::Pass { nontrivial: n >= 1 && changed }
                }
                Err((sig, d)) => Verdict::fail(sig, d),
            },
            Which::C08 => match oracle::prose::check_with_text(&c.src, &root, &out, &oroot) {
                Ok(ok) => {
                    let long = c.src.lines().any(|l| l.chars().count() > c.cfg.width);
                    Verdict::Pass { nontrivial: ok.multi_line_nodes >= 1 || long }
                }
                Err((sig, _)) if sig == "STRUCT" => Verdict::skip("structure-differs:C01s-business"),
                Err((sig, d)) => Verdict::fail(sig, d),
            },
            Which::C09 => match oracle::mathws::check(&root, &oroot) {
                Ok(ok) => Verdict::Pass { nontrivial: ok.interesting >= 1 },
                Err((sig, _)) if sig == "STRUCT" => Verdict::skip("structure-differs:C01s-business"),
                Err((sig, d)) => Verdict::fail(sig, d),
            },
            Which::C10 => match oracle::literals::check(&root, &oroot) {
                Ok(l) => Verdict::Pass { nontrivial: changed && (l.multiline >= 1 || l.nested >= 1) },
                Err((sig, d)) => Verdict::fail(sig, d),
            },
            Which::C07 => check_off(c, env, st, &root, &out, &oroot),
            _ => unreachable!(),
        }
    }

    fn reduce(&self, c: &SrcCase, _env: &Env, fails: &mut dyn FnMut(&SrcCase) -> bool) -> SrcCase {
        let mut best = c.clone();
        if best.cfg.blank != 2 {
            let cand = SrcCase { cfg: Cfg { blank: 2, ..best.cfg.clone() }, ..best.clone() };
            if fails(&cand) {
                best = cand;
            }
        }
        // config first (cheap): canonical values
        for (w, t) in [(80, 2), (120, 2), (40, 2), (20, 2), (0, 2), (c.cfg.width, 2), (80, c.cfg.tab)] {
            let cand = SrcCase { cfg: Cfg { width: w, tab: t, reorder: best.cfg.reorder, blank: best.cfg.blank }, ..best.clone() };
            if fails(&cand) {
                best = cand;
                break;
            }
        }
        if best.cfg.reorder {
            let cand = SrcCase { cfg: Cfg { reorder: false, ..best.cfg.clone() }, ..best.clone() };
            if fails(&cand) {
                best = cand;
            }
        }
        if let Some((rs, re)) = best.range {
            // ranges do not survive arbitrary text edits: only whole top-level nodes that lie entirely
            // before or after the requested range are deleted (the range is shifted accordingly)
            let mut rs = rs;
            let mut re = re;
            loop {
                let root = syn::parse(&best.src);
                let mut spans: Vec<(usize, usize)> = vec![];
                let mut off = 0;
                for ch in root.children() {
                    spans.push((off, off + ch.len()));
                    off += ch.len();
                }
                let mut changed = false;
                for &(a, b) in spans.iter().rev() {
                    if b <= a {
                        continue;
                    }
                    let lo = rs.min(best.src.len());
                    let hi = re.min(best.src.len());
                    let (nrs, nre) = if a >= hi && a > lo {
                        (rs, re)
                    } else if b <= lo {
                        (rs - (b - a), if re > best.src.len() { re } else { re - (b - a) })
                    } else {
                        continue;
                    };
                    let mut t = String::with_capacity(best.src.len());
                    t.push_str(&best.src[..a]);
                    t.push_str(&best.src[b..]);
                    let cand = SrcCase { src: t, range: Some((nrs, nre)), ..best.clone() };
                    if fails(&cand) {
                        best = cand;
                        rs = nrs;
                        re = nre;
                        changed = true;
                        break;
                    }
                }
                if !changed {
                    break;
                }
            }
            return best;
        }
        let need_wf = true;
        let proto = best.clone();
        let reduced = reduce::reduce_text(&best.src, &mut |s: &str| {
            if need_wf && !syn::wf(s) {
                return false;
            }
            fails(&SrcCase { src: s.to_string(), ..proto.clone() })
        });
        best.src = reduced;
        best
    }

    fn sample(&self, c: &SrcCase) -> Value {
        json!({
            "src": syn::clip(&c.src, 400),
            "width": c.cfg.width,
            "tab": c.cfg.tab,
            "reorder": c.cfg.reorder,
            "range": c.range,
            "origin": c.origin,
        })
    }
}

impl SrcProp {
    fn sweep_items_import(&self, env: &Env) -> Vec<usize> {
        let c = env.corpus;
        c.wf.iter().copied().filter(|&i| c.items[i].text.contains("import")).collect()
    }
}

/// Signature of a normal-form difference: the differing tokens reduced to their kinds plus the
/// enclosing opener.
fn norm_sig(a: &[String], b: &[String], i: usize) -> String {
    let kind = |t: Option<&String>| -> String {
        match t {
            None => "END".into(),
            Some(t) => {
                let t = t.trim_start_matches('(');
                t.split([':', '(', ' ']).next().unwrap_or("").to_string()
            }
        }
    };
    // enclosing opener in the input stream
    let mut depth = 0i32;
    let mut encl = "ROOT".to_string();
    for t in a[..i.min(a.len())].iter().rev() {
        if t == ")" {
            depth += 1;
        } else if t.starts_with('(') {
            if depth == 0 {
                encl = kind(Some(t));
                break;
            }
            depth -= 1;
        }
    }
    format!("{}->{}@{}", kind(a.get(i)), kind(b.get(i)), encl)
}

/// Signature for a non-convergence: kind of the deepest inner node of the first output that
/// covers the first differing line.
fn c03_sig(out: &str, oroot: &SyntaxNode, line: usize) -> String {
    let mut off = 0;
    for (i, l) in out.split('\n').enumerate() {
        if i == line {
            break;
        }
        off += l.len() + 1;
    }
    let line_end = off + out[off.min(out.len())..].find('\n').unwrap_or(out.len() - off.min(out.len()));
    deepest_cover(oroot, off.min(out.len()), line_end.min(out.len()))
}

fn deepest_cover(root: &SyntaxNode, s: usize, e: usize) -> String {
    let flat = syn::flatten(root);
    let mut best: Option<&syn::Flat> = None;
    for f in &flat {
        if !syn::is_leaf(f.node) && f.start <= s && f.end >= e {
            if best.is_none_or(|b| f.depth >= b.depth) {
                best = Some(f);
            }
        }
    }
    match best {
        Some(f) => format!("{:?}<{}", f.node.kind(), f.parent.map(|p| format!("{p:?}")).unwrap_or("ROOT".into())),
        None => "ROOT".into(),
    }
}

/// Where does the output's first syntax error sit, in terms of the INPUT's structure?
fn error_context(out: &str, oroot: &SyntaxNode, _src: &str, iroot: &SyntaxNode) -> (String, String) {
    let flat = syn::flatten(oroot);
    let err = flat.iter().find(|f| f.node.kind() == K::Error);
    let (pos, msg) = match err {
        Some(f) => (f.start, f.node.errors().first().map(|e| e.message.to_string()).unwrap_or_default()),
        None => (0, oroot.errors().first().map(|e| e.message.to_string()).unwrap_or_default()),
    };
    // features of the input that are known to matter
    let mut feats = vec![];
    let has_line_cmt_in_math = syn::any_node(iroot, &mut |n| {
        n.kind() == K::Math && n.children().any(|c| c.kind() == K::LineComment)
    });
    if has_line_cmt_in_math {
        feats.push("line-comment-in-math");
    }
    let parent = err
        .and_then(|f| f.parent_idx)
        .map(|p| format!("{:?}", flat[p].node.kind()))
        .unwrap_or("ROOT".into());
    let lo = pos.saturating_sub(40);
    let mut lo2 = lo;
    while !out.is_char_boundary(lo2) {
        lo2 -= 1;
    }
    let mut hi = (pos + 40).min(out.len());
    while !out.is_char_boundary(hi) {
        hi += 1;
    }
    (
        format!("{}@{}", msg.split_whitespace().take(3).collect::<Vec<_>>().join("-"), parent),
        format!("output has a syntax error ({msg}) near byte {pos}: …{:?}… [input features: {feats:?}]", &out[lo2..hi]),
    )
}

// ---------------------------------------------------------------------------------------- C11

fn degenerate_doc(t: &mut Tape) -> String {
    const D: &[&str] = &[
        "", " ", "\n", "\n\n", "  \n  ", "\t", "\u{a0}", "\u{3000}", "\u{2028}", "\r\n", "\r", "a", "a ", "a\n\n\n", "// c", "/* c */",
        "// c  ", "/* c */  \n", "```\nraw\n```", "```\nraw  \n```  ", "a  \nb  \n", "#let x = 1  ", "$x$ ", "= H  ", "- a  \n- b  ",
        "\u{feff}a", "a\u{200b} ", "a\u{1680}", "\u{85}", "a \\\n", "a \\", "#f(  \n  1  ,\n)  ", "a\u{2003}\nb", "a\t\nb", "\u{c}", "\u{b}x",
        "x\u{a0}\ny", "\"s\"  ", "#\"a  \nb\"",
    ];
    let n = 1 + t.below(3);
    let mut s = String::new();
    for _ in 0..n {
        s.push_str(t.pick(D));
    }
    s
}

// ---------------------------------------------------------------------------------------- C12

fn check_indent(c: &SrcCase, env: &Env, st: &mut Stats) -> Verdict {
    let root = syn::parse(&c.src);
    if root.erroneous() {
        return Verdict::skip("input-not-well-formed");
    }
    let units: Vec<usize> = (1..=8).collect();
    let mut outs = vec![];
    for &u in &units {
        match fmt_or_skip(env, &c.src, &Cfg { width: config::HUGE, tab: u, reorder: c.cfg.reorder, blank: c.cfg.blank }) {
            Ok(o) => outs.push(o),
            Err(v) => return v,
        }
    }
    if syn::parse(&outs[0]).erroneous() {
        return Verdict::skip("deferred_to_C04:output-has-syntax-errors");
    }
    labels_for(st, c, &root, &outs[1]);
    let levels = match oracle::indent::check_proportional(&units, &outs) {
        Ok(ok) => ok.levels,
        Err((sig, d)) => return Verdict::fail(sig, d),
    };
    let mut max_levels = levels;
    for u in [3usize, 4, 5, 7, 8] {
        let out = match fmt_or_skip(env, &c.src, &Cfg { width: c.cfg.width, tab: u, reorder: c.cfg.reorder, blank: c.cfg.blank }) {
            Ok(o) => o,
            Err(v) => return v,
        };
        if syn::parse(&out).erroneous() {
            return Verdict::skip("deferred_to_C04:output-has-syntax-errors");
        }
        match oracle::indent::check_multiple(u, &out) {
            Ok(l) => max_levels = max_levels.max(l),
            Err((sig, d)) => return Verdict::fail(sig, format!("width {}: {d}", c.cfg.width)),
        }
    }
    st.label_if(max_levels >= 3, "indent-levels>=3");
    Verdict::Pass { nontrivial: max_levels >= 2 }
}

// ---------------------------------------------------------------------------------------- C19

fn check_imports(c: &SrcCase, env: &Env, st: &mut Stats) -> Verdict {
    let root = syn::parse(&c.src);
    if root.erroneous() {
        return Verdict::skip("input-not-well-formed");
    }
    let off = match fmt_or_skip(env, &c.src, &Cfg { reorder: false, ..c.cfg.clone() }) {
        Ok(o) => o,
        Err(v) => return v,
    };
    let on = match fmt_or_skip(env, &c.src, &Cfg { reorder: true, ..c.cfg.clone() }) {
        Ok(o) => o,
        Err(v) => return v,
    };
    if !syn::wf(&off) || !syn::wf(&on) {
        return Verdict::skip("deferred_to_C04:output-has-syntax-errors");
    }
    labels_for(st, c, &root, &off);
    match oracle::imports::check(&root, &off, &on) {
        Ok(ok) => {
            st.label_if(ok.guarded > 0, "import-with-comment-or-duplicate");
            st.label_if(ok.imports > 0, "has-import");
            Verdict::Pass { nontrivial: ok.sortable_unsorted >= 1 }
        }
        Err((sig, _)) if sig == "STRUCT" => Verdict::skip("structure-differs:C01s-business"),
        Err((sig, d)) => Verdict::fail(sig, d),
    }
}

// ---------------------------------------------------------------------------------------- C07

/// Insert a directive before a tape-chosen node and uglify that node.
fn insert_directive(t: &mut Tape, src: &str) -> Option<(String, String)> {
    use crate::syn::ast;
    let root = syn::parse(src);
    let flat = syn::flatten(&root);
    // candidate nodes: expressions (not trivia), Code, Math bodies, with a parent in which a comment is allowed
    let cands: Vec<usize> = (1..flat.len())
        .filter(|&i| {
            let f = &flat[i];
            let k = f.node.kind();
            if f.end == f.start {
                return false;
            }
            let is_expr = f.node.cast::<ast::Expr>().is_some()
                && !matches!(k, K::Space | K::Parbreak | K::Text | K::Linebreak | K::SmartQuote | K::Shorthand | K::Escape);
            let is_body = matches!(k, K::Code | K::Math);
            (is_expr || is_body) && !matches!(f.parent, Some(K::Raw | K::FieldAccess | K::Ref))
        })
        .collect();
    if cands.is_empty() {
        return None;
    }
    let i = t.pick(&cands);
    let f = &flat[i];
    // the directive goes before the node, or before its `#`
    let mut at = f.start;
    if let Some(p) = f.parent_idx {
        // previous sibling is a Hash?
        let mut prev: Option<&syn::Flat> = None;
        for g in flat.iter().filter(|g| g.parent_idx == Some(p)) {
            if g.start == f.start && g.end == f.end {
                break;
            }
            prev = Some(g);
        }
        if let Some(pr) = prev {
            if pr.node.kind() == K::Hash {
                at = pr.start;
            }
        }
    }
    let node_text = &src[f.start..f.end];
    let ugly = uglify(t, node_text);
    let in_math = matches!(f.parent, Some(K::Math | K::MathDelimited | K::MathAttach | K::MathFrac | K::MathRoot)) || f.node.kind() == K::Math;
    // any comment CONTAINING the directive counts: reasons, punctuation and quotes next to it
    const BLOCK: &[&str] = &[
        "/* @typstyle off */ ", "/* @typstyle off */", "/*@typstyle off*/", "/* (@typstyle off) */ ", "/* @typstyle off, see #12 */ ",
        "/* hand-aligned, hence @typstyle off. */", "/* \"@typstyle off\" */ ", "/* keep:@typstyle off*/", "/* note\n   @typstyle off */ ",
        "/** @typstyle off **/",
    ];
    const LINE: &[&str] = &[
        "// @typstyle off\n", "//@typstyle off\n", "/// @typstyle off\n", "// @typstyle off: hand-aligned\n", "// (@typstyle off)\n",
        "// table below -- @typstyle off.\n", "// @typstyle off   \n",
    ];
    let directive = match t.weighted(&[6, if in_math { 0 } else { 3 }]) {
        0 => if t.chance(128) { BLOCK[t.below(3)] } else { t.pick(BLOCK) }.to_string(),
        _ => if t.chance(128) { LINE[0] } else { t.pick(LINE) }.to_string(),
    };
    let mut s = String::with_capacity(src.len() + 64);
    s.push_str(&src[..at]);
    s.push_str(&directive);
    s.push_str(&src[at..f.start]);
    s.push_str(&ugly);
    s.push_str(&src[f.end..]);
    let cls = format!("{:?}<{}", f.node.kind(), f.parent.map(|p| format!("{p:?}")).unwrap_or_default());
    Some((s, cls))
}

/// Respell the blanks inside a node's text: a badly formatted but (hopefully) equivalent node.
fn uglify(t: &mut Tape, text: &str) -> String {
    let root_probe = syn::parse(text);
    let _ = root_probe;
    let mut out = String::with_capacity(text.len() + 16);
    let mut in_str = false;
    let mut prev = '\0';
    for ch in text.chars() {
        if ch == '"' && prev != '\\' {
            in_str = !in_str;
        }
        if !in_str && ch == ' ' && t.chance(90) {
            out.push_str(t.pick(&["  ", "   ", " \t", "    "]));
        } else if !in_str && (ch == ',' || ch == '(') && t.chance(60) {
            out.push(ch);
            out.push_str(t.pick(&[" ", "  ", "   "]));
        } else if !in_str && ch == '\n' && t.chance(60) {
            out.push('\n');
            out.push_str(t.pick(&["   ", " ", "       ", "\t"]));
        } else {
            out.push(ch);
        }
        prev = ch;
    }
    out
}

fn check_off(c: &SrcCase, env: &Env, st: &mut Stats, root: &SyntaxNode, out: &str, oroot: &SyntaxNode) -> Verdict {
    let ok = match oracle::off::check_verbatim(&c.src, root, out, oroot) {
        Ok(ok) => ok,
        Err((sig, d)) => return Verdict::fail(sig, d),
    };
    if ok.disabled == 0 {
        return Verdict::Pass { nontrivial: false };
    }
    // metamorphic clause: neutralise the directive(s); lines outside the top-level line groups
    // that contain a disabled node must be identical
    let s0 = oracle::off::neutralise(&c.src, root);
    let out0 = match env.f.format(&s0, &c.cfg) {
        Fmt::Ok(o) => o,
        _ => return Verdict::skip("neutralised-variant-not-formattable"),
    };
    let root0 = syn::parse(&out0);
    if root0.erroneous() {
        return Verdict::skip("deferred_to_C04:output-has-syntax-errors");
    }
    let dis = oracle::off::disabled_nodes(root, false);
    let gi = oracle::off::top_groups(root);
    let g1 = oracle::off::top_groups(oroot);
    let g0 = oracle::off::top_groups(&root0);
    // does the directive matter? (non-triviality): the neutralised run formats the node differently
    let matters = out0.replace("@typstyle 0ff", oracle::off::DIRECTIVE) != out.replace("@typstyle 0ff", oracle::off::DIRECTIVE);
    if gi.len() != g1.len() || gi.len() != g0.len() {
        return Verdict::skip("top-level-groups-differ:C01s-business");
    }
    // groups the directive may legitimately influence: those overlapping a disabled node (from its
    // directive to its end), and -- to stay on the safe side where the statement is silent (a
    // further comment between directive and node) -- every group holding a directive comment and
    // the group after it
    let dir_offsets: Vec<usize> = syn::flatten(root)
        .iter()
        .filter(|f| syn::is_comment(f.node.kind()) && f.node.text().contains(oracle::off::DIRECTIVE))
        .map(|f| f.start)
        .collect();
    // is a group made of comments only?
    let comment_only: Vec<bool> = {
        let mut v = vec![];
        for &(s, e) in &gi {
            let mut only = true;
            let mut off = 0;
            for ch in root.children() {
                let (cs, ce) = (off, off + ch.len());
                off = ce;
                if cs >= s && ce <= e && ch.kind() != K::Space && !syn::is_comment(ch.kind()) {
                    only = false;
                }
            }
            v.push(only);
        }
        v
    };
    let mut mark = vec![false; gi.len()];
    for g in 0..gi.len() {
        if dis.iter().any(|d| d.dir_start < gi[g].1 && d.end > gi[g].0) {
            mark[g] = true;
        }
        if dir_offsets.iter().any(|&o| o >= gi[g].0 && o < gi[g].1) {
            mark[g] = true;
            // typstyle keeps the directive pending across comments and blank space
            let mut h = g + 1;
            while h < gi.len() {
                mark[h] = true;
                if !comment_only[h] {
                    break;
                }
                h += 1;
            }
        }
    }
    let affected: Vec<usize> = (0..gi.len()).filter(|&g| mark[g]).collect();
    let line_of = |text: &str, off: usize| text[..off.min(text.len())].matches('\n').count();
    let l1: Vec<&str> = out.split('\n').collect();
    let out0_restored = out0.replace("@typstyle 0ff", oracle::off::DIRECTIVE);
    let l0: Vec<&str> = out0_restored.split('\n').collect();
    // walk the unaffected groups pairwise and compare their full lines
    let mut prev_aff_end1 = 0usize; // first line index after the previous affected group
    let mut prev_aff_end0 = 0usize;
    let mut idx = 0;
    while idx <= affected.len() {
        let (s1, s0_) = if idx < affected.len() {
            (line_of(out, g1[affected[idx]].0), line_of(&out0, g0[affected[idx]].0))
        } else {
            (l1.len(), l0.len())
        };
        // lines [prev_aff_end .. s) must match
        let a = &l1[prev_aff_end1.min(s1)..s1];
        let b = &l0[prev_aff_end0.min(s0_)..s0_];
        if a != b {
            let i = a.iter().zip(b.iter()).position(|(x, y)| x != y).unwrap_or(a.len().min(b.len()));
            return Verdict::fail(
                "C07:leak-outside-node",
                format!(
                    "outside the construct holding the disabled node the output differs from the run with the directive neutralised: line {:?} vs {:?}",
                    a.get(i).map(|s| syn::clip(s, 100)),
                    b.get(i).map(|s| syn::clip(s, 100))
                ),
            );
        }
        if idx < affected.len() {
            prev_aff_end1 = line_of(out, g1[affected[idx]].1) + 1;
            prev_aff_end0 = line_of(&out0, g0[affected[idx]].1) + 1;
        }
        idx += 1;
    }
    for d in &dis {
        st.label(&format!("disabled:{:?}<{:?}", d.kind, d.parent));
    }
    Verdict::Pass { nontrivial: matters }
}

// ---------------------------------------------------------------------------------------- C13

fn floor_cb(s: &str, mut i: usize) -> usize {
    i = i.min(s.len());
    while !s.is_char_boundary(i) {
        i -= 1;
    }
    i
}

pub fn pick_range(t: &mut Tape, src: &str) -> (usize, usize) {
    let n = src.len();
    match t.weighted(&[4, 6, 4, 2, 2, 1, 1, 6]) {
        // empty range
        0 => {
            let a = floor_cb(src, t.below(n + 1));
            (a, a)
        }
        // exact range of an inner node (an expression with parts: chains, calls, operators, lists, ...)
        7 => {
            let root = syn::parse(src);
            let flat = syn::flatten(&root);
            let inner: Vec<usize> = (0..flat.len()).filter(|&i| flat[i].node.children().len() > 1 && flat[i].depth > 0).collect();
            if inner.is_empty() {
                (0, n)
            } else {
                let f = &flat[inner[t.below(inner.len())]];
                (f.start, f.end)
            }
        }
        // exact node range
        1 => {
            let root = syn::parse(src);
            let flat = syn::flatten(&root);
            let f = &flat[t.below(flat.len())];
            (f.start, f.end)
        }
        // arbitrary
        2 => {
            let a = floor_cb(src, t.below(n + 1));
            let b = floor_cb(src, a + t.below(n - a + 1));
            (a, b)
        }
        // short range
        3 => {
            let a = floor_cb(src, t.below(n + 1));
            let b = floor_cb(src, (a + t.below(12)).min(n));
            (a, b.max(a))
        }
        // whole
        4 => (0, n),
        // past the end
        5 => {
            let a = floor_cb(src, t.below(n + 1));
            (a, n + 1 + t.below(64))
        }
        _ => {
            let a = floor_cb(src, t.below(n + 1));
            (a, usize::MAX / 2)
        }
    }
}

fn check_range(c: &SrcCase, env: &Env, st: &mut Stats) -> Verdict {
    use crate::syn::{ast, LinkedNode};
    let Some((rs, re)) = c.range else { return Verdict::skip("no-range") };
    let src = &c.src;
    let root = syn::parse(src);
    let wf = !root.erroneous();
    st.label(&format!("origin:{}", c.origin));
    st.label(if wf { "source:well-formed" } else { "source:erroneous" });
    st.label_if(rs == re, "range:empty");
    st.label_if(re > src.len(), "range:past-end");
    st.label_if(rs == 0 && re == src.len(), "range:whole");
    let res = env.f.format_range(src, rs, re, &c.cfg);
    // requested range after clamping and trimming blanks
    let cs = rs.min(src.len());
    let ce = re.min(src.len());
    let seg = &src[cs..ce];
    let te = cs + seg.trim_end().len();
    let ts = te - src[cs..te].trim_start().len();
    st.label_if(ts == te && rs != re, "range:whitespace-only");
    match res {
        RangeFmt::Panic(m) => Verdict::fail(
            format!("C13:panic:{}", m.split_whitespace().take(4).collect::<Vec<_>>().join("-")),
            format!("format_source_range panicked for range {rs}..{re}: {m}"),
        ),
        RangeFmt::Refused => {
            // refusal is demanded when the smallest covering node is erroneous; it is allowed otherwise
            // only if no Markup/Expr/Pattern node covers the range -- the root always does for
            // well-formed sources, so a refusal there is a violation.
            if wf {
                Verdict::fail("C13:refused-well-formed", format!("range {rs}..{re} of a well-formed source was refused"))
            } else {
                Verdict::Pass { nontrivial: false }
            }
        }
        RangeFmt::Ok { start, end, text } => {
            if start > end || end > src.len() || !src.is_char_boundary(start) || !src.is_char_boundary(end) {
                return Verdict::fail("C13:range-out-of-bounds", format!("returned range {start}..{end} for a text of {} bytes", src.len()));
            }
            // node boundaries: some Markup/Expr/Pattern node has exactly this range and is not erroneous
            let mut found = false;
            let mut found_clean = false;
            fn find(n: &LinkedNode, s: usize, e: usize, found: &mut bool, clean: &mut bool) {
                let r = n.range();
                if r.start == s && r.end == e {
                    let castable = n.get().cast::<ast::Markup>().is_some()
                        || n.get().cast::<ast::Expr>().is_some()
                        || n.get().cast::<ast::Pattern>().is_some();
                    if castable {
                        *found = true;
                        if !n.get().erroneous() {
                            *clean = true;
                        }
                    }
                }
                if r.start <= s && r.end >= e {
                    for c in n.children() {
                        find(&c, s, e, found, clean);
                    }
                }
            }
            find(&LinkedNode::new(&root), start, end, &mut found, &mut found_clean);
            if !found {
                return Verdict::fail("C13:not-node-boundary", format!("returned range {start}..{end} is not the range of a Markup/Expr/Pattern node"));
            }
            if !found_clean {
                return Verdict::fail("C13:erroneous-node-formatted", format!("node {start}..{end} has syntax errors but text was returned"));
            }
            if !(start <= ts && end >= te) {
                return Verdict::fail(
                    "C13:does-not-cover",
                    format!("returned range {start}..{end} does not cover the trimmed request {ts}..{te}"),
                );
            }
            if !wf {
                // the rest of the statement is about well-formed sources
                return Verdict::Pass { nontrivial: false };
            }
            let mut spliced = String::with_capacity(src.len() + text.len());
            spliced.push_str(&src[..start]);
            spliced.push_str(&text);
            spliced.push_str(&src[end..]);
            let sroot = syn::parse(&spliced);
            let kind = deepest_exact(&root, start, end);
            // single-homing: what whole-document formatting gets wrong as well belongs to C04 / C01
            let full = env.f.format(src, &c.cfg);
            if sroot.erroneous() {
                if full.ok().is_some_and(|o| !syn::wf(o)) {
                    return Verdict::skip("deferred_to_C04:whole-document-output-erroneous-too");
                }
                return Verdict::fail(
                    format!("C13:splice-erroneous:{kind}"),
                    format!("replacing {start}..{end} ({kind}) with {:?} gives a text with syntax errors", syn::clip(&text, 200)),
                );
            }
            let nopts = || NormOpts { sort_imports: c.cfg.reorder };
            let a = oracle::normal::normalize(&root, nopts());
            let b = oracle::normal::normalize(&sroot, nopts());
            match oracle::first_diff(&a, &b) {
                None => {
                    st.label(&format!("node:{kind}"));
                    Verdict::Pass { nontrivial: text != src[start..end] }
                }
                Some((i, d)) => {
                    if let Some(o) = full.ok() {
                        let c = oracle::normal::normalize(&syn::parse(o), nopts());
                        if oracle::first_diff(&a, &c).is_some() {
                            return Verdict::skip("deferred_to_C01:whole-document-tree-differs-too");
                        }
                    }
                    Verdict::fail(
                    format!("C13:splice-tree-differs:{kind}:{}", norm_sig(&a, &b, i)),
                    format!("replacing {start}..{end} ({kind}) with {:?}: {d}", syn::clip(&text, 200)),
                )}
            }
        }
    }
}

/// Model of the node selection of range formatting (partial.rs get_node_cover_range_impl), used only
/// to decide whether a request falls into the domain of finding R14 (a math node is selected).
fn r14_math_node_selected(src: &str, root: &SyntaxNode, rs: usize, re: usize) -> bool {
    use crate::syn::{ast, LinkedNode};
    let (cs, ce) = (rs.min(src.len()), re.min(src.len()));
    if cs > ce || !src.is_char_boundary(cs) || !src.is_char_boundary(ce) {
        return false;
    }
    let seg = &src[cs..ce];
    let te = cs + seg.trim_end().len();
    let ts = te - src[cs..te].trim_start().len();
    fn select<'a>(n: &LinkedNode<'a>, ts: usize, te: usize) -> Option<LinkedNode<'a>> {
        for c in n.children() {
            if let Some(r) = select(&c, ts, te) {
                return Some(r);
            }
        }
        let r = n.range();
        let is_markup = n.get().cast::<ast::Markup>().is_some() && n.kind() == K::Markup;
        let is_document = is_markup && n.parent().is_none();
        let is_blank = matches!(n.kind(), K::Space | K::Parbreak);
        let is_method_callee = n.kind() == K::FieldAccess && n.parent_kind() == Some(K::FuncCall) && n.prev_sibling().is_none();
        let is_paren = n.kind() == K::Parenthesized;
        let castable = n.get().cast::<ast::Expr>().is_some() || n.get().cast::<ast::Pattern>().is_some();
        (r.start <= ts && r.end >= te && (is_document || (!is_markup && !is_blank && !is_method_callee && !is_paren && castable))).then(|| n.clone())
    }
    let Some(sel) = select(&LinkedNode::new(root), ts, te) else { return false };
    // walk up: an equation above, and no `#` in front of the node or of an ancestor below the equation
    let mut cur = Some(sel.clone());
    let mut below_equation = false;
    let mut hashed = false;
    let mut first = true;
    while let Some(n) = cur {
        if n.kind() == K::Equation && !first {
            below_equation = true;
            break;
        }
        if n.prev_sibling_kind() == Some(K::Hash) {
            hashed = true;
        }
        first = false;
        cur = n.parent().cloned();
    }
    below_equation && !hashed
}

fn deepest_exact(root: &SyntaxNode, s: usize, e: usize) -> String {
    let flat = syn::flatten(root);
    let mut best: Option<&syn::Flat> = None;
    for f in &flat {
        if f.start == s && f.end == e && best.is_none_or(|b| f.depth >= b.depth) {
            use crate::syn::ast;
            if f.node.cast::<ast::Markup>().is_some() || f.node.cast::<ast::Expr>().is_some() || f.node.cast::<ast::Pattern>().is_some() {
                best = Some(f);
            }
        }
    }
    match best {
        Some(f) => format!("{:?}<{}", f.node.kind(), f.parent.map(|p| format!("{p:?}")).unwrap_or("ROOT".into())),
        None => "?".into(),
    }
}
