//! The interface through which the formatter under test is observed.

use serde::{Deserialize, Serialize};

#[derive(Clone, Debug, Serialize, Deserialize, PartialEq, Eq, Hash)]
pub struct Cfg {
    pub width: usize,
    pub tab: usize,
    #[serde(default)]
    pub reorder: bool,
    /// `Config::blank_lines_upper_bound` (default 2; not reachable from the CLI)
    #[serde(default = "default_blank", skip_serializing_if = "is_default_blank")]
    pub blank: usize,
}

fn default_blank() -> usize {
    2
}
fn is_default_blank(b: &usize) -> bool {
    *b == 2
}

impl Cfg {
    pub fn new(width: usize, tab: usize) -> Self {
        Cfg { width, tab, reorder: false, blank: 2 }
    }
    pub fn with_reorder(mut self, r: bool) -> Self {
        self.reorder = r;
        self
    }
}

impl Default for Cfg {
    fn default() -> Self {
        Cfg { width: 80, tab: 2, reorder: false, blank: 2 }
    }
}

/// Result of one whole-document format call.
#[derive(Clone, Debug, PartialEq, Eq)]
pub enum Fmt {
    Ok(String),
    /// `Err(SyntaxError)`
    Refused,
    /// the call panicked (message)
    Panic(String),
}

impl Fmt {
    pub fn ok(&self) -> Option<&str> {
        match self {
            Fmt::Ok(s) => Some(s),
            _ => None,
        }
    }
}

#[derive(Clone, Debug, PartialEq, Eq)]
pub enum RangeFmt {
    Ok { start: usize, end: usize, text: String },
    Refused,
    Panic(String),
}

pub trait Formatter: Sync + Send {
    /// `Typstyle::new(cfg).format_content(src)` under catch_unwind.
    fn format(&self, src: &str, cfg: &Cfg) -> Fmt;
    /// `Typstyle::new(cfg).format_source_range(&Source::detached(src), start..end)`.
    fn format_range(&self, src: &str, start: usize, end: usize, cfg: &Cfg) -> RangeFmt;
    /// `typstyle_core::format_with_width(src, width)`; Err = panicked.
    fn format_with_width(&self, src: &str, width: usize) -> Result<String, String>;
    /// Format and return the hook counter (conversions) for this call.
    fn format_counted(&self, src: &str, cfg: &Cfg) -> (Fmt, u64);
}
