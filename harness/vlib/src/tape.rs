//! The byte tape every generator decodes from. All random choices of a case are a pure
//! function of the tape, which proptest generates and shrinks (internal shrinking): an
//! exhausted tape yields 0 everywhere, i.e. the first / simplest alternative.

pub struct Tape<'a> {
    data: &'a [u8],
    pos: usize,
}

impl<'a> Tape<'a> {
    pub fn new(data: &'a [u8]) -> Self {
        Tape { data, pos: 0 }
    }

    pub fn byte(&mut self) -> u8 {
        if self.pos < self.data.len() {
            let b = self.data[self.pos];
            self.pos += 1;
            b
        } else {
            0
        }
    }

    pub fn u16(&mut self) -> u16 {
        ((self.byte() as u16) << 8) | self.byte() as u16
    }

    pub fn u64(&mut self) -> u64 {
        let mut v = 0u64;
        for _ in 0..8 {
            v = (v << 8) | self.byte() as u64;
        }
        v
    }

    /// Uniform-ish index in 0..n, monotone in the tape bytes (so shrinking bytes towards 0
    /// moves towards earlier alternatives).
    pub fn below(&mut self, n: usize) -> usize {
        if n <= 1 {
            0
        } else if n <= 256 {
            (self.byte() as usize * n) >> 8
        } else if n <= 65536 {
            (self.u16() as usize * n) >> 16
        } else {
            let v = ((self.u16() as u64) << 16) | self.u16() as u64;
            ((v as u128 * n as u128) >> 32) as usize
        }
    }

    /// inclusive range
    pub fn range(&mut self, lo: usize, hi: usize) -> usize {
        lo + self.below(hi - lo + 1)
    }

    /// true with probability num/256; shrinks to false.
    pub fn chance(&mut self, num: u32) -> bool {
        (self.byte() as u32) + num >= 256
    }

    pub fn coin(&mut self) -> bool {
        self.chance(128)
    }

    pub fn pick<T: Copy>(&mut self, xs: &[T]) -> T {
        xs[self.below(xs.len())]
    }

    /// Index chosen with the given weights; earlier entries are what shrinking moves to.
    pub fn weighted(&mut self, weights: &[u32]) -> usize {
        let total: u32 = weights.iter().sum();
        if total == 0 {
            return 0;
        }
        let mut x = self.below(total as usize) as u32;
        for (i, w) in weights.iter().enumerate() {
            if x < *w {
                return i;
            }
            x -= w;
        }
        weights.len() - 1
    }

    pub fn exhausted(&self) -> bool {
        self.pos >= self.data.len()
    }

    pub fn remaining(&self) -> usize {
        self.data.len().saturating_sub(self.pos)
    }
}
