//! C10: literal content is preserved exactly.

use crate::oracle::normal::raw_view;
use crate::syn::{self, K, SyntaxNode};

pub struct Lits {
    pub seq: Vec<String>,
    pub multiline: usize,
    pub nested: usize,
}

pub fn literals(root: &SyntaxNode) -> Lits {
    let mut l = Lits { seq: vec![], multiline: 0, nested: 0 };
    rec(root, 0, &mut l);
    l
}

fn rec(n: &SyntaxNode, depth: usize, l: &mut Lits) {
    let k = n.kind();
    if k == K::Raw {
        if syn::has_nl(&syn::text_of(n)) {
            l.multiline += 1;
        }
        if depth >= 4 {
            l.nested += 1;
        }
        l.seq.push(raw_view(n));
        return;
    }
    if syn::is_leaf(n) {
        match k {
            K::Str | K::Int | K::Float | K::Numeric | K::Ident | K::MathIdent | K::Label | K::RefMarker
            | K::Link | K::Escape | K::Bool => {
                if k == K::Str {
                    if syn::has_nl(n.text()) {
                        l.multiline += 1;
                    }
                    if depth >= 4 {
                        l.nested += 1;
                    }
                }
                l.seq.push(format!("{k:?}:{}", n.text()));
            }
            _ => {}
        }
        return;
    }
    let d = if matches!(k, K::Args | K::Array | K::Dict | K::CodeBlock | K::ContentBlock | K::ListItem | K::EnumItem | K::TermItem) {
        depth + 1
    } else {
        depth
    };
    for c in n.children() {
        rec(c, d, l);
    }
}

pub fn check(inp: &SyntaxNode, out: &SyntaxNode) -> Result<Lits, (String, String)> {
    let a = literals(inp);
    let b = literals(out);
    if a.seq != b.seq {
        let i = a.seq.iter().zip(b.seq.iter()).position(|(x, y)| x != y).unwrap_or(a.seq.len().min(b.seq.len()));
        let kind = |t: Option<&String>| -> String {
            match t {
                None => "END".into(),
                Some(t) => t.split(['(', ':']).next().unwrap_or("").to_string(),
            }
        };
        return Err((
            format!("C10:{}->{}", kind(a.seq.get(i)), kind(b.seq.get(i))),
            format!("literal #{i}: {:?} -> {:?}", a.seq.get(i), b.seq.get(i)),
        ));
    }
    Ok(a)
}
