//! C08: prose is left untouched. Per Markup node: words and the SP / NL / PAR(n) class of every
//! whitespace, modulo the outer edges of the node.

use crate::syn::{self, K, SyntaxNode};

pub fn markup_seq(m: &SyntaxNode) -> Vec<String> {
    let mut v: Vec<String> = vec![];
    let push_ws = |v: &mut Vec<String>, t: String| {
        // merge whitespace runs (comments were dropped between them): PAR > NL > SP
        fn rank(s: &str) -> (u8, usize) {
            if let Some(n) = s.strip_prefix("PAR") {
                (2, n.parse().unwrap_or(0))
            } else if s == "NL" {
                (1, 0)
            } else {
                (0, 0)
            }
        }
        if let Some(last) = v.last_mut() {
            if last == "SP" || last == "NL" || last.starts_with("PAR") {
                if rank(&t) > rank(last) {
                    *last = t;
                }
                return;
            }
        }
        v.push(t);
    };
    for c in m.children() {
        match c.kind() {
            K::Text => {
                let mut first = true;
                for w in c.text().split(' ') {
                    if !first {
                        push_ws(&mut v, "SP".into());
                    }
                    first = false;
                    if !w.is_empty() {
                        v.push(format!("W:{w}"));
                    }
                }
            }
            K::Space => push_ws(&mut v, if syn::has_nl(c.text()) { "NL".into() } else { "SP".into() }),
            K::Parbreak => push_ws(&mut v, format!("PAR{}", syn::count_nl(c.text()))),
            K::LineComment | K::BlockComment => {}
            K::Escape | K::Shorthand | K::SmartQuote | K::Link | K::Label | K::Linebreak => {
                v.push(format!("{:?}:{}", c.kind(), c.text()))
            }
            K::Ref => v.push(format!(
                "Ref:{}",
                c.children().next().map(|x| x.text().to_string()).unwrap_or_default()
            )),
            K::Strong | K::Emph | K::Raw | K::Equation | K::Heading | K::ListItem | K::EnumItem | K::TermItem => {
                v.push(format!("<{:?}>", c.kind()))
            }
            // embedded code, `#`, `;`: opaque marker (parentheses/braces may legitimately change)
            _ => {
                if v.last().is_none_or(|l| l != "<code>") {
                    v.push("<code>".into())
                }
            }
        }
    }
    let ws = |s: &String| s == "SP" || s == "NL" || s.starts_with("PAR");
    while v.first().is_some_and(ws) {
        v.remove(0);
    }
    while v.last().is_some_and(ws) {
        v.pop();
    }
    v
}

pub fn collect_kind<'a>(n: &'a SyntaxNode, kinds: &[K], out: &mut Vec<&'a SyntaxNode>) {
    if kinds.contains(&n.kind()) {
        out.push(n);
    }
    for c in n.children() {
        collect_kind(c, kinds, out);
    }
}

/// Pieces of prose and inline elements of one Markup node with the physical lines they occupy.
fn pieces(text: &str, m: &crate::syn::LinkedNode) -> Vec<(String, usize, usize)> {
    // line index of a byte offset (Typst's newline characters, CRLF once)
    let line_of = |off: usize| -> usize { syn::count_nl(&text[..off.min(text.len())]) };
    let mut v = vec![];
    for c in m.children() {
        let r = c.range();
        match c.kind() {
            K::Text => {
                let l = line_of(r.start);
                for w in c.text().split(' ').filter(|w| !w.is_empty()) {
                    v.push((format!("W:{w}"), l, l));
                }
            }
            K::Strong | K::Emph | K::Raw | K::Link | K::Label | K::Ref | K::Escape | K::Shorthand | K::SmartQuote | K::Equation => {
                v.push((format!("<{:?}>", c.kind()), line_of(r.start), line_of(r.end)));
            }
            _ => {}
        }
    }
    v
}

/// "Pieces of prose and inline elements that were on one source line stay on one line": for
/// consecutive pieces of a markup node that share a physical line in the input, the output must
/// keep them on one physical line (embedded code between them must not be broken over lines).
fn check_same_line(in_text: &str, inp: &SyntaxNode, out_text: &str, out: &SyntaxNode) -> Result<usize, (String, String)> {
    use crate::syn::LinkedNode;
    fn collect<'a>(n: &LinkedNode<'a>, v: &mut Vec<LinkedNode<'a>>) {
        if n.kind() == K::Markup {
            v.push(n.clone());
        }
        for c in n.children() {
            collect(&c, v);
        }
    }
    let (mut mi, mut mo) = (vec![], vec![]);
    collect(&LinkedNode::new(inp), &mut mi);
    collect(&LinkedNode::new(out), &mut mo);
    let mut pairs = 0;
    for (idx, (a, b)) in mi.iter().zip(mo.iter()).enumerate() {
        let (pa, pb) = (pieces(in_text, a), pieces(out_text, b));
        if pa.len() != pb.len() || pa.iter().zip(pb.iter()).any(|(x, y)| x.0 != y.0) {
            continue; // the sequence clause already speaks about this node
        }
        for i in 0..pa.len().saturating_sub(1) {
            if pa[i].2 == pa[i + 1].1 {
                pairs += 1;
                if pb[i].2 != pb[i + 1].1 {
                    return Err((
                        "C08:same-line-pieces-separated".into(),
                        format!(
                            "markup node #{idx}: {:?} and {:?} are on one source line but on different output lines ({} vs {}): something between them was broken over lines",
                            pa[i].0, pa[i + 1].0, pb[i].2 + 1, pb[i + 1].1 + 1
                        ),
                    ));
                }
            }
        }
    }
    Ok(pairs)
}

pub struct ProseOk {
    pub markup_nodes: usize,
    pub multi_line_nodes: usize,
}

pub fn check_with_text(in_text: &str, inp: &SyntaxNode, out_text: &str, out: &SyntaxNode) -> Result<ProseOk, (String, String)> {
    let ok = check(inp, out)?;
    check_same_line(in_text, inp, out_text, out)?;
    Ok(ok)
}

pub fn check(inp: &SyntaxNode, out: &SyntaxNode) -> Result<ProseOk, (String, String)> {
    let (mut mi, mut mo) = (vec![], vec![]);
    collect_kind(inp, &[K::Markup], &mut mi);
    collect_kind(out, &[K::Markup], &mut mo);
    if mi.len() != mo.len() {
        return Err(("STRUCT".into(), format!("{} markup nodes in, {} out", mi.len(), mo.len())));
    }
    let mut multi = 0;
    for (idx, (a, b)) in mi.iter().zip(mo.iter()).enumerate() {
        let (sa, sb) = (markup_seq(a), markup_seq(b));
        if sa.iter().any(|t| t == "NL" || t.starts_with("PAR")) {
            multi += 1;
        }
        if sa != sb {
            let i = sa.iter().zip(sb.iter()).position(|(x, y)| x != y).unwrap_or(sa.len().min(sb.len()));
            let lo = i.saturating_sub(4);
            let cls = |t: Option<&String>| -> String {
                match t {
                    None => "END".into(),
                    Some(t) if t.starts_with("W:") => "W".into(),
                    Some(t) if t.starts_with("PAR") => "PAR".into(),
                    Some(t) if t.starts_with('<') => t.clone(),
                    Some(t) => t.split(':').next().unwrap_or("").to_string(),
                }
            };
            return Err((
                format!("C08:{}->{}", cls(sa.get(i)), cls(sb.get(i))),
                format!(
                    "markup node #{idx}: input …{:?}… vs output …{:?}…",
                    &sa[lo..(i + 4).min(sa.len())],
                    &sb[lo..(i + 4).min(sb.len())]
                ),
            ));
        }
    }
    Ok(ProseOk { markup_nodes: mi.len(), multi_line_nodes: multi })
}
