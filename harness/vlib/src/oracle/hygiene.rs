//! C11: output is non-empty, ends in LF, no line ends in a blank.

pub fn check(out: &str) -> Result<(), (String, String)> {
    if out.is_empty() {
        return Err(("C11:empty".into(), "output is empty".into()));
    }
    if !out.ends_with('\n') {
        return Err(("C11:no-final-newline".into(), format!("output ends with {:?}", out.chars().last())));
    }
    for (i, line) in out.split('\n').enumerate() {
        if let Some(c) = line.chars().last() {
            if c.is_whitespace() {
                return Err((
                    format!("C11:trailing-blank:U+{:04X}", c as u32),
                    format!("line {} ends in a blank: {:?}", i + 1, crate::syn::clip(line, 120)),
                ));
            }
        }
    }
    Ok(())
}

/// does the input itself violate the hygiene (then the case is non-trivial)?
pub fn input_dirty(src: &str) -> bool {
    src.is_empty()
        || !src.ends_with('\n')
        || src.split('\n').any(|l| l.chars().last().is_some_and(|c| c.is_whitespace()))
}
