//! C09: whitespace between math atoms is neither created, removed nor converted.

use crate::oracle::prose::collect_kind;
use crate::syn::{self, ast, K, SyntaxNode};

/// atoms and the class ("-", "SP", "NL") of the gap before each atom and after the last one
fn math_seq(m: &SyntaxNode) -> (Vec<String>, Vec<&'static str>) {
    let mut atoms = vec![];
    let mut gaps: Vec<&'static str> = vec!["-"];
    for c in m.children() {
        match c.kind() {
            K::Space => {
                let g = if syn::has_nl(c.text()) { "NL" } else { "SP" };
                let last = gaps.last_mut().unwrap();
                // runs around a comment merge: NL > SP
                if *last == "-" || g == "NL" {
                    *last = g;
                }
            }
            // comments are not atoms; the gaps on both sides of one merge
            K::LineComment | K::BlockComment => {}
            k => {
                atoms.push(if syn::is_leaf(c) { format!("{:?}:{}", k, c.text()) } else { format!("<{k:?}>") });
                gaps.push("-");
            }
        }
    }
    (atoms, gaps)
}

pub struct MathOk {
    pub math_nodes: usize,
    /// nodes with >= 2 atoms and both spaced and unspaced gaps
    pub interesting: usize,
}

pub fn check(inp: &SyntaxNode, out: &SyntaxNode) -> Result<MathOk, (String, String)> {
    // equations: block status
    let (mut ei, mut eo) = (vec![], vec![]);
    collect_kind(inp, &[K::Equation], &mut ei);
    collect_kind(out, &[K::Equation], &mut eo);
    if ei.len() != eo.len() {
        return Err(("STRUCT".into(), format!("{} equations in, {} out", ei.len(), eo.len())));
    }
    for (i, (a, b)) in ei.iter().zip(eo.iter()).enumerate() {
        let (ba, bb) = (
            a.cast::<ast::Equation>().map(|e| e.block()),
            b.cast::<ast::Equation>().map(|e| e.block()),
        );
        if ba != bb {
            return Err((
                "C09:equation-block".into(),
                format!("equation #{i}: block={ba:?} in the input, block={bb:?} in the output"),
            ));
        }
    }
    let (mut mi, mut mo) = (vec![], vec![]);
    collect_kind(inp, &[K::Math, K::MathDelimited], &mut mi);
    collect_kind(out, &[K::Math, K::MathDelimited], &mut mo);
    if mi.len() != mo.len() {
        return Err(("STRUCT".into(), format!("{} math nodes in, {} out", mi.len(), mo.len())));
    }
    let mut interesting = 0;
    for (idx, (a, b)) in mi.iter().zip(mo.iter()).enumerate() {
        let (sa, sb) = (math_seq(a), math_seq(b));
        if sa.0 != sb.0 {
            return Err(("STRUCT".into(), format!("math node #{idx}: atoms differ")));
        }
        if sa.0.len() >= 2 && sa.1.contains(&"-") && sa.1.iter().any(|g| *g != "-") {
            interesting += 1;
        }
        if sa.1 != sb.1 {
            let i = sa.1.iter().zip(sb.1.iter()).position(|(x, y)| x != y).unwrap_or(0);
            let before = if i == 0 { "START".to_string() } else { sa.0[i - 1].clone() };
            let after = sa.0.get(i).cloned().unwrap_or("END".into());
            let cls = |s: &str| -> String {
                if s.starts_with('<') { s.to_string() } else { s.split(':').next().unwrap_or("").to_string() }
            };
            return Err((
                format!("C09:{:?}:{}->{}:{}|{}", a.kind(), sa.1[i], sb.1[i], cls(&before), cls(&after)),
                format!(
                    "{:?} node #{idx}: gap between {before:?} and {after:?} was {:?}, is {:?}",
                    a.kind(),
                    sa.1[i],
                    sb.1[i]
                ),
            ));
        }
    }
    Ok(MathOk { math_nodes: mi.len(), interesting })
}
