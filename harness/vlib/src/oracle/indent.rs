//! C12: indentation is governed solely by the indent unit.

use crate::oracle::off::disabled_nodes;
use crate::syn::{self, K, LinkedNode, SyntaxNode};

/// Lines (0-based, split at '\n') that are continuation lines of comments, strings, raw text
/// or of nodes disabled by `@typstyle off`: their indentation is copied from the source.
pub fn exempt_lines(text: &str, root: &SyntaxNode) -> Vec<bool> {
    let nlines = text.split('\n').count();
    let mut ex = vec![false; nlines];
    // line start offsets
    let mut starts = vec![0usize];
    for (i, b) in text.bytes().enumerate() {
        if b == b'\n' {
            starts.push(i + 1);
        }
    }
    let line_of = |off: usize| -> usize {
        match starts.binary_search(&off) {
            Ok(i) => i,
            Err(i) => i - 1,
        }
    };
    let mut mark = |s: usize, e: usize, ex: &mut Vec<bool>| {
        let (a, b) = (line_of(s), line_of(e.min(text.len())));
        for l in a + 1..=b {
            if l < ex.len() {
                ex[l] = true;
            }
        }
    };
    fn rec(n: &LinkedNode, mark: &mut dyn FnMut(usize, usize)) {
        if matches!(n.kind(), K::BlockComment | K::LineComment | K::Str | K::Raw) {
            let r = n.range();
            mark(r.start, r.end);
            return;
        }
        for c in n.children() {
            rec(&c, mark);
        }
    }
    rec(&LinkedNode::new(root), &mut |s, e| mark(s, e, &mut ex));
    for d in disabled_nodes(root, true) {
        mark(d.start, d.end, &mut ex);
    }
    ex
}

pub fn lead(line: &str) -> usize {
    line.len() - line.trim_start_matches(' ').len()
}

pub struct IndentOk {
    pub levels: usize,
    pub lines: usize,
}

/// Clause (i): outputs for all units at a width where nothing wraps differ only in leading
/// spaces, by exactly the ratio of the units. `outs[i]` is the output for unit `units[i]`.
pub fn check_proportional(units: &[usize], outs: &[String]) -> Result<IndentOk, (String, String)> {
    let base = &outs[0];
    let u0 = units[0];
    let root0 = syn::parse(base);
    let ex = exempt_lines(base, &root0);
    let l0: Vec<&str> = base.split('\n').collect();
    let mut levels = std::collections::BTreeSet::new();
    for (k, out) in outs.iter().enumerate().skip(1) {
        let u = units[k];
        let lt: Vec<&str> = out.split('\n').collect();
        if lt.len() != l0.len() {
            return Err((
                "C12:line-count".into(),
                format!("unit {u0} gives {} lines, unit {u} gives {} lines at a width where nothing wraps", l0.len(), lt.len()),
            ));
        }
        for (i, (a, b)) in l0.iter().zip(lt.iter()).enumerate() {
            if ex[i] {
                continue;
            }
            let (ia, ib) = (lead(a), lead(b));
            if a.trim_start_matches(' ') != b.trim_start_matches(' ') {
                return Err((
                    "C12:line-content".into(),
                    format!("line {}: unit {u0}: {:?} vs unit {u}: {:?}", i + 1, syn::clip(a, 100), syn::clip(b, 100)),
                ));
            }
            if ia * u != ib * u0 {
                return Err((
                    format!("C12:not-proportional"),
                    format!(
                        "line {}: {ia} leading spaces with unit {u0}, {ib} with unit {u}: {:?}",
                        i + 1,
                        syn::clip(b, 100)
                    ),
                ));
            }
            if k == 1 && ia > 0 {
                levels.insert(ia);
            }
        }
    }
    Ok(IndentOk { levels: levels.len(), lines: l0.len() })
}

/// Clause (ii): every non-exempt line is indented by a whole multiple of the unit.
pub fn check_multiple(unit: usize, out: &str) -> Result<usize, (String, String)> {
    let root = syn::parse(out);
    let ex = exempt_lines(out, &root);
    let mut levels = std::collections::BTreeSet::new();
    for (i, line) in out.split('\n').enumerate() {
        if ex[i] || line.is_empty() {
            continue;
        }
        let l = lead(line);
        if unit > 0 && l % unit != 0 {
            return Err((
                "C12:not-multiple".into(),
                format!("line {}: {l} leading spaces is not a multiple of the unit {unit}: {:?}", i + 1, syn::clip(line, 100)),
            ));
        }
        if l > 0 {
            levels.insert(l);
        }
    }
    Ok(levels.len())
}
