pub mod comments;
pub mod hygiene;
pub mod imports;
pub mod indent;
pub mod literals;
pub mod mathws;
pub mod normal;
pub mod off;
pub mod prose;

/// First index where two token streams differ, with a small window of both for messages.
pub fn first_diff(a: &[String], b: &[String]) -> Option<(usize, String)> {
    let n = a.len().min(b.len());
    let i = (0..n).find(|&i| a[i] != b[i]).or(if a.len() != b.len() { Some(n) } else { None })?;
    let lo = i.saturating_sub(4);
    let wa = &a[lo..(i + 5).min(a.len())];
    let wb = &b[lo..(i + 5).min(b.len())];
    Some((i, format!("at token {i}: input …{wa:?}… vs output …{wb:?}…")))
}
