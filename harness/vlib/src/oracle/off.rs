//! C07: `@typstyle off`. The set of disabled nodes is re-derived from the statement of the
//! property, not from typstyle's attribute store.

use crate::syn::{self, ast, K, LinkedNode, SyntaxNode};

pub const DIRECTIVE: &str = "@typstyle off";

/// The source with every directive neutralised in place (same length): only inside comments.
pub fn neutralise(src: &str, root: &SyntaxNode) -> String {
    let mut out = src.to_string();
    for f in syn::flatten(root) {
        if syn::is_comment(f.node.kind()) && f.node.text().contains(DIRECTIVE) {
            let t = src[f.start..f.end].replace(DIRECTIVE, "@typstyle 0ff");
            out.replace_range(f.start..f.end, &t);
        }
    }
    out
}

#[derive(Debug, Clone)]
pub struct Disabled {
    /// byte range of the disabled node
    pub start: usize,
    pub end: usize,
    pub kind: K,
    pub parent: K,
    /// text of the directive comment
    pub directive: String,
    pub dir_start: usize,
}

/// Nodes that directly follow (ignoring whitespace and `#`) a comment containing the directive
/// and are an expression, a code body or an equation body. With `broad`, patterns count as
/// well (used only for the C12 exemption, where being generous is the safe direction).
pub fn disabled_nodes(root: &SyntaxNode, broad: bool) -> Vec<Disabled> {
    let mut out = vec![];
    rec(&LinkedNode::new(root), broad, &mut out);
    out
}

fn rec(n: &LinkedNode, broad: bool, out: &mut Vec<Disabled>) {
    let mut pending: Option<(String, usize)> = None;
    for c in n.children() {
        let k = c.kind();
        if syn::is_comment(k) {
            if c.text().contains(DIRECTIVE) {
                pending = Some((c.text().to_string(), c.offset()));
            } else {
                // a comment in between: not "directly followed"; typstyle still disables the next
                // node, the property does not say so: not claimed either way
                if pending.is_some() && !broad {
                    pending = None;
                }
            }
            continue;
        }
        if matches!(k, K::Space | K::Hash) {
            if k == K::Space || pending.is_some() {
                continue;
            }
        }
        if let Some((directive, dir_start)) = pending.take() {
            let is_expr = c.get().cast::<ast::Expr>().is_some() && !matches!(k, K::Space | K::Parbreak);
            let is_body = matches!(k, K::Code | K::Math);
            let is_pat = broad && c.get().cast::<ast::Pattern>().is_some();
            if is_expr || is_body || is_pat {
                let r = c.range();
                // a disabled code body makes the whole code block verbatim
                let (s, e) = if k == K::Code && n.kind() == K::CodeBlock { (n.range().start, n.range().end) } else { (r.start, r.end) };
                out.push(Disabled { start: s, end: e, kind: k, parent: n.kind(), directive, dir_start });
                continue; // typstyle does not look inside a disabled node
            }
        }
        rec(&c, broad, out);
    }
}

fn trim_line_ends(s: &str) -> String {
    s.split('\n').map(|l| l.trim_end()).collect::<Vec<_>>().join("\n")
}

pub struct OffOk {
    pub disabled: usize,
}

/// Clause 1 and 2: directives kept, node text verbatim.
pub fn check_verbatim(src: &str, inp: &SyntaxNode, out_text: &str, out: &SyntaxNode) -> Result<OffOk, (String, String)> {
    let a = disabled_nodes(inp, false);
    let b = disabled_nodes(out, false);
    // directives present with identical text
    let dirs = |root: &SyntaxNode| -> Vec<String> {
        let mut v = vec![];
        fn r(n: &SyntaxNode, v: &mut Vec<String>) {
            if syn::is_comment(n.kind()) && n.text().contains(DIRECTIVE) {
                v.push(crate::oracle::comments::norm_comment(n.kind(), n.text()));
            }
            for c in n.children() {
                r(c, v);
            }
        }
        r(root, &mut v);
        v
    };
    let (da, db) = (dirs(inp), dirs(out));
    // directives inside a disabled node are part of its verbatim text; compare all of them
    if da != db {
        return Err((
            "C07:directive-not-kept".into(),
            format!("directive comments in the input: {da:?}, in the output: {db:?}"),
        ));
    }
    if a.len() != b.len() {
        return Err((
            "C07:disabled-count".into(),
            format!(
                "{} nodes follow a directive in the input, {} in the output (kinds in: {:?}, out: {:?})",
                a.len(),
                b.len(),
                a.iter().map(|d| d.kind).collect::<Vec<_>>(),
                b.iter().map(|d| d.kind).collect::<Vec<_>>()
            ),
        ));
    }
    for (i, (x, y)) in a.iter().zip(b.iter()).enumerate() {
        let tx = trim_line_ends(&src[x.start..x.end]);
        let ty = trim_line_ends(&out_text[y.start..y.end]);
        // The node's text must appear character for character. Two pairing artefacts are not
        // differences: (1) typstyle may wrap a broken expression in optional parentheses / braces
        // (redundant grouping, C01), the directive then precedes the wrapper; (2) adjacent text
        // runs merge into one Text node, so a disabled Text node is a prefix of the output's.
        let unwrapped = {
            let t = ty.trim();
            if (t.starts_with('(') && t.ends_with(')')) || (t.starts_with('{') && t.ends_with('}')) {
                Some(t[1..t.len() - 1].trim().to_string())
            } else {
                None
            }
        };
        let same = tx == ty
            || unwrapped.as_deref() == Some(tx.trim())
            || (x.kind == K::Text && ty.starts_with(&tx));
        if !same {
            return Err((
                format!("C07:not-verbatim:{:?}:{:?}", x.parent, x.kind),
                format!("disabled node #{i} ({:?} under {:?}): {:?} became {:?}", x.kind, x.parent, syn::clip(&tx, 200), syn::clip(&ty, 200)),
            ));
        }
    }
    Ok(OffOk { disabled: a.len() })
}

/// Top-level line groups: maximal runs of root children not separated by a line break.
/// Returns for each group the byte range (start of first child, end of last child).
pub fn top_groups(root: &SyntaxNode) -> Vec<(usize, usize)> {
    let mut groups = vec![];
    let mut cur: Option<(usize, usize)> = None;
    let mut off = 0;
    for c in root.children() {
        let (s, e) = (off, off + c.len());
        off = e;
        let brk = c.kind() == K::Parbreak || (c.kind() == K::Space && syn::has_nl(c.text()));
        if brk {
            if let Some(g) = cur.take() {
                groups.push(g);
            }
        } else if c.kind() == K::Space {
            if let Some(g) = cur.as_mut() {
                g.1 = e;
            }
        } else {
            match cur.as_mut() {
                Some(g) => g.1 = e,
                None => cur = Some((s, e)),
            }
        }
    }
    if let Some(g) = cur {
        groups.push(g);
    }
    groups
}
