//! C06: comments are never lost, duplicated, reordered, reworded or moved across a word.

use crate::oracle::normal::raw_view;
use crate::syn::{self, K, SyntaxNode};

#[derive(Debug, PartialEq, Eq, Clone)]
pub struct Cmt {
    pub line: bool,
    pub text: String,
    /// number of word leaves before the comment
    pub words_before: usize,
    /// kind of the node holding the comment (for signatures)
    pub parent: K,
}

pub fn norm_comment(kind: K, text: &str) -> String {
    if kind == K::LineComment {
        return text.trim_end().to_string();
    }
    // block comment: per line, trailing blanks and the indentation of continuation lines are free
    let mut lines: Vec<String> = vec![];
    let mut cur = String::new();
    let mut it = text.chars().peekable();
    while let Some(c) = it.next() {
        if syn::is_nl(c) {
            if c == '\r' && it.peek() == Some(&'\n') {
                it.next();
            }
            lines.push(std::mem::take(&mut cur));
        } else {
            cur.push(c);
        }
    }
    lines.push(cur);
    lines
        .iter()
        .enumerate()
        .map(|(i, l)| if i == 0 { l.trim_end().to_string() } else { l.trim().to_string() })
        .collect::<Vec<_>>()
        .join("\n")
}

pub struct Walk {
    pub comments: Vec<Cmt>,
    pub words: Vec<String>,
}

pub fn collect(root: &SyntaxNode) -> Walk {
    let mut w = Walk { comments: vec![], words: vec![] };
    rec(root, K::Markup, &mut w);
    w
}

fn rec(n: &SyntaxNode, parent: K, w: &mut Walk) {
    let k = n.kind();
    if k == K::Raw {
        w.words.push(raw_view(n));
        return;
    }
    if syn::is_leaf(n) {
        match k {
            K::LineComment | K::BlockComment => w.comments.push(Cmt {
                line: k == K::LineComment,
                text: norm_comment(k, n.text()),
                words_before: w.words.len(),
                parent,
            }),
            K::Text => {
                for x in n.text().split_whitespace() {
                    w.words.push(x.to_string());
                }
            }
            K::Ident
            | K::MathIdent
            | K::MathText
            | K::Int
            | K::Float
            | K::Numeric
            | K::Str
            | K::Bool
            | K::Label
            | K::Link
            | K::Escape
            | K::Shorthand
            | K::MathShorthand
            | K::RefMarker
            | K::SmartQuote => w.words.push(n.text().to_string()),
            _ if k.is_keyword() => w.words.push(n.text().to_string()),
            _ => {}
        }
        return;
    }
    if k == K::Binary {
        // `not in` is one operator: the `not` directly before `in` is not a word
        let kids: Vec<&SyntaxNode> = n.children().collect();
        for (i, c) in kids.iter().enumerate() {
            if c.kind() == K::Not {
                let next_sig = kids[i + 1..]
                    .iter()
                    .find(|x| x.kind() != K::Space && !syn::is_comment(x.kind()));
                if next_sig.is_some_and(|x| x.kind() == K::In) {
                    continue;
                }
            }
            rec(c, k, w);
        }
        return;
    }
    for c in n.children() {
        rec(c, k, w);
    }
}

/// Ok(number of comments) or Err((sig, detail))
pub fn check(inp: &SyntaxNode, out: &SyntaxNode) -> Result<usize, (String, String)> {
    let a = collect(inp);
    let b = collect(out);
    if a.words != b.words {
        let i = a.words.iter().zip(b.words.iter()).position(|(x, y)| x != y).unwrap_or(a.words.len().min(b.words.len()));
        let lo = i.saturating_sub(3);
        // is the difference a word that went into / came out of a comment?
        return Err((
            "C06:words-differ".into(),
            format!(
                "word sequence differs at word {i}: input …{:?}… vs output …{:?}… (code swallowed by / released from a comment?)",
                &a.words[lo..(i + 3).min(a.words.len())],
                &b.words[lo..(i + 3).min(b.words.len())]
            ),
        ));
    }
    if a.comments.len() != b.comments.len() {
        let ctx = a.comments.first().map(|c| format!("{:?}", c.parent)).unwrap_or_default();
        return Err((
            format!("C06:count:{}", if a.comments.len() > b.comments.len() { "lost" } else { "gained" }),
            format!("{} comments in, {} out (first input comment under {ctx})", a.comments.len(), b.comments.len()),
        ));
    }
    for (i, (x, y)) in a.comments.iter().zip(b.comments.iter()).enumerate() {
        if x.line != y.line || x.text != y.text {
            return Err((
                format!("C06:text:{:?}", x.parent),
                format!("comment #{i} changed: {:?} -> {:?}", x.text, y.text),
            ));
        }
        if x.words_before != y.words_before {
            return Err((
                format!("C06:moved:{:?}:{}", x.parent, if x.line { "line" } else { "block" }),
                format!(
                    "comment #{i} {:?} moved across a word: {} words before it in the input, {} in the output",
                    x.text, x.words_before, y.words_before
                ),
            ));
        }
    }
    Ok(a.comments.len())
}

/// With import reordering on the items (words) of a comment-free import may change places, so only what the
/// statement says about the comments themselves is compared: none lost, none gained, same order, same text.
pub fn check_order_only(inp: &SyntaxNode, out: &SyntaxNode) -> Result<usize, (String, String)> {
    let a = collect(inp);
    let b = collect(out);
    if a.comments.len() != b.comments.len() {
        return Err((
            format!("C06:reorder-on:count:{}", if a.comments.len() > b.comments.len() { "lost" } else { "gained" }),
            format!("with import reordering on: {} comments in, {} out", a.comments.len(), b.comments.len()),
        ));
    }
    for (i, (x, y)) in a.comments.iter().zip(b.comments.iter()).enumerate() {
        if x.line != y.line || x.text != y.text {
            return Err((
                "C06:reorder-on:order-or-text".into(),
                format!("with import reordering on: comment #{i} is {:?} in the input and {:?} in the output (reordered or reworded)", x.text, y.text),
            ));
        }
    }
    Ok(a.comments.len())
}
