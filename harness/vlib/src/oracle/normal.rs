//! The Typst-semantic normal form N(tree) (DESIGN.md section 4.1): an untyped walk that keeps
//! every token unless a rule drops it; each drop rule corresponds to something Typst's
//! evaluator cannot see through `typst_syntax::ast`.

use crate::syn::{self, ast, K, SyntaxNode};

const SP: &str = "␣";
const PAR: &str = "¶";

#[derive(Clone, Copy, Default)]
pub struct NormOpts {
    /// compare the items of each import as a sorted sequence (reordering on, C19)
    pub sort_imports: bool,
}

pub fn normalize(root: &SyntaxNode, opts: NormOpts) -> Vec<String> {
    let mut out = vec![];
    let cx = Cx { parent: None, grand: None, math: false, opts };
    node(root, cx, &mut out);
    out
}

#[derive(Clone, Copy)]
struct Cx {
    parent: Option<K>,
    grand: Option<K>,
    /// lexical mode is math (children of Math nodes that are not behind a `#`)
    math: bool,
    opts: NormOpts,
}

impl Cx {
    fn child(self, of: &SyntaxNode, math: bool) -> Cx {
        Cx { parent: Some(of.kind()), grand: self.parent, math, opts: self.opts }
    }
}

fn is_ws(v: &[String]) -> bool {
    v.len() == 1 && (v[0] == SP || v[0] == PAR)
}

fn is_block_item(k: K) -> bool {
    matches!(k, K::ListItem | K::EnumItem | K::TermItem)
}

fn is_stmt(k: K) -> bool {
    matches!(k, K::LetBinding | K::SetRule | K::ShowRule | K::ModuleImport | K::ModuleInclude)
}

#[derive(PartialEq, Clone, Copy)]
enum Scope {
    Document,
    Content,
    Item,
}

fn markup(n: &SyntaxNode, cx: Cx, out: &mut Vec<String>) {
    let scope = match cx.parent {
        None => Scope::Document,
        Some(K::ContentBlock | K::Strong | K::Emph) => Scope::Content,
        _ => Scope::Item,
    };
    let ccx = cx.child(n, false);
    // items: token groups; whitespace is a single-token group
    let mut items: Vec<(Vec<String>, bool)> = vec![];
    let mut was_stmt = false;
    for c in n.children() {
        let k = c.kind();
        // ast::Markup::exprs() ignores a space directly after a statement. Comment placement is
        // layout, so comments between the statement and the space are transparent here: every
        // space in the run of blanks and comments that follows a statement is dropped.
        if k == K::Space && was_stmt {
            continue;
        }
        if !(syn::is_comment(k) && was_stmt) {
            was_stmt = is_stmt(k);
        }
        let mut v = vec![];
        node(c, ccx, &mut v);
        if v.is_empty() {
            continue;
        }
        if k == K::Text {
            for t in v {
                items.push((vec![t], false));
            }
        } else {
            items.push((v, is_block_item(k)));
        }
    }
    // merge whitespace runs (PAR wins)
    let mut merged: Vec<(Vec<String>, bool)> = vec![];
    for it in items {
        if is_ws(&it.0) {
            if let Some(last) = merged.last_mut() {
                if is_ws(&last.0) {
                    if it.0[0] == PAR {
                        last.0[0] = PAR.to_string();
                    }
                    continue;
                }
            }
        }
        merged.push(it);
    }
    let mut start = 0;
    let mut end = merged.len();
    if start < end && is_ws(&merged[start].0) {
        let drop = match scope {
            Scope::Document | Scope::Item => true,
            Scope::Content => merged[start].0[0] == SP && start + 1 < end && merged[start + 1].1,
        };
        if drop {
            start += 1;
        }
    }
    if start < end && is_ws(&merged[end - 1].0) {
        let drop = match scope {
            Scope::Document | Scope::Item => true,
            Scope::Content => merged[end - 1].0[0] == SP && end - 1 > start && merged[end - 2].1,
        };
        if drop {
            end -= 1;
        }
    }
    for it in &merged[start..end] {
        out.extend(it.0.iter().cloned());
    }
}

fn math_body(n: &SyntaxNode, cx: Cx, out: &mut Vec<String>) {
    // children of a Math node: spaces are significant, runs (left by removed comments) merge
    let mut prev_hash = false;
    let mut last_was_sp = false;
    for c in n.children() {
        let k = c.kind();
        if syn::is_comment(k) {
            continue;
        }
        if k == K::Space {
            if !last_was_sp {
                out.push(SP.into());
                last_was_sp = true;
            }
            continue;
        }
        last_was_sp = false;
        // a node directly behind `#` is in code mode
        let ccx = cx.child(n, !prev_hash);
        node(c, ccx, out);
        prev_hash = k == K::Hash;
    }
}

fn strip_paren(n: &SyntaxNode) -> &SyntaxNode {
    let mut cur = n;
    while cur.kind() == K::Parenthesized {
        match cur
            .children()
            .find(|c| c.cast::<ast::Expr>().is_some() || c.cast::<ast::Pattern>().is_some())
        {
            Some(i) => cur = i,
            None => break,
        }
    }
    cur
}

/// `{ e }` with exactly one expression (comments allowed) -> e
fn single_expr_of_block(n: &SyntaxNode) -> Option<&SyntaxNode> {
    if n.kind() != K::CodeBlock {
        return None;
    }
    let code = n.children().find(|c| c.kind() == K::Code)?;
    let mut exprs = code.children().filter(|c| c.cast::<ast::Expr>().is_some());
    let first = exprs.next()?;
    if exprs.next().is_some() {
        return None;
    }
    Some(first)
}

fn node(n: &SyntaxNode, cx: Cx, out: &mut Vec<String>) {
    let k = n.kind();
    let pk = cx.parent;
    match k {
        // trivia: never cast to an expression
        K::LineComment | K::BlockComment | K::Shebang => {}
        K::Space => {
            if matches!(pk, Some(K::Markup | K::Math)) {
                out.push(SP.into());
            }
        }
        K::Parbreak => out.push(PAR.into()),
        K::Markup => {
            out.push("(Markup".into());
            markup(n, cx, out);
            out.push(")".into());
        }
        K::Math => {
            out.push("(Math".into());
            math_body(n, cx, out);
            out.push(")".into());
        }
        K::Equation => {
            let block = n.cast::<ast::Equation>().map(|e| e.block()).unwrap_or(false);
            out.push(format!("(Equation block={block}"));
            for c in n.children() {
                if matches!(c.kind(), K::Dollar | K::Space) || syn::is_comment(c.kind()) {
                    continue;
                }
                node(c, cx.child(n, true), out);
            }
            out.push(")".into());
        }
        K::Text if pk == Some(K::Markup) => {
            let mut first = true;
            for w in n.text().split(' ') {
                if !first {
                    out.push(SP.into());
                }
                first = false;
                if !w.is_empty() {
                    out.push(format!("T:{w}"));
                }
            }
        }
        K::Raw => out.push(raw_view(n)),
        K::Parenthesized => {
            let inner = n
                .children()
                .find(|c| c.cast::<ast::Expr>().is_some() || c.cast::<ast::Pattern>().is_some());
            // `(a.b)(x)` calls the field's value, `a.b(x)` is a method call
            let guard = pk == Some(K::FuncCall)
                && inner.is_some_and(|i| strip_paren(i).kind() == K::FieldAccess);
            if guard {
                out.push("(ParenCallee".into());
            }
            for c in n.children() {
                // the parenthesised node is transparent: the child sees our parent
                let ccx = Cx { parent: if guard { Some(K::Parenthesized) } else { pk }, grand: cx.grand, math: false, opts: cx.opts };
                match c.kind() {
                    K::LeftParen | K::RightParen | K::Space => {}
                    ck if syn::is_comment(ck) => {}
                    _ => node(c, ccx, out),
                }
            }
            if guard {
                out.push(")".into());
            }
        }
        K::LeftParen | K::RightParen | K::LeftBrace | K::RightBrace | K::LeftBracket | K::RightBracket
            if matches!(
                pk,
                Some(
                    K::Array
                        | K::Dict
                        | K::Args
                        | K::Params
                        | K::Destructuring
                        | K::CodeBlock
                        | K::ContentBlock
                        | K::ModuleImport
                        | K::ImportItems
                )
            ) => {}
        K::Colon if pk == Some(K::Dict) => {}
        K::Comma | K::Semicolon => {
            // kept only inside the argument list of a math-mode call (2-D arguments, trailing commas)
            let in_math_args = cx.math_args();
            if in_math_args {
                out.push(format!("{k:?}"));
            }
        }
        K::Closure => {
            out.push("(Closure".into());
            let kids: Vec<&SyntaxNode> = n.children().collect();
            let last_expr = kids.iter().rposition(|c| c.cast::<ast::Expr>().is_some());
            for (i, c) in kids.iter().enumerate() {
                let ccx = cx.child(n, false);
                if Some(i) == last_expr {
                    let c2 = strip_paren(c);
                    if let Some(e) = single_expr_of_block(c2) {
                        node(strip_paren(e), ccx, out);
                        continue;
                    }
                }
                node(c, ccx, out);
            }
            out.push(")".into());
        }
        K::ImportItems if cx.opts.sort_imports => {
            out.push("(ImportItems".into());
            let mut items: Vec<Vec<String>> = vec![];
            for c in n.children() {
                if matches!(c.kind(), K::RenamedImportItem | K::ImportItemPath) {
                    let mut v = vec![];
                    node(c, cx.child(n, false), &mut v);
                    items.push(v);
                }
            }
            items.sort();
            for v in items {
                out.extend(v);
            }
            out.push(")".into());
        }
        _ => {
            if syn::is_leaf(n) {
                if n.text().is_empty() {
                    // empty inner nodes (Markup/Math/Code/Args/Params/Array without children) and
                    // zero-width tokens
                    out.push(format!("{k:?}"));
                } else {
                    out.push(format!("{k:?}:{}", n.text()));
                }
            } else {
                out.push(format!("({k:?}"));
                // mode of the children
                let math_children = match k {
                    K::MathDelimited | K::MathAttach | K::MathFrac | K::MathRoot | K::MathPrimes => true,
                    K::CodeBlock | K::ContentBlock | K::Code => false,
                    _ => cx.math,
                };
                let mut prev_hash = false;
                for c in n.children() {
                    let m = math_children && !prev_hash;
                    node(c, cx.child(n, m), out);
                    if c.kind() != K::Space {
                        prev_hash = c.kind() == K::Hash;
                    }
                }
                out.push(")".into());
            }
        }
    }
}

impl Cx {
    /// Is the current token a direct part of a math-mode call's argument list?
    /// (child of Args, or of an Array/Named/Spread directly below such Args)
    fn math_args(&self) -> bool {
        if !self.math {
            return false;
        }
        // commas inside the rows of 2-D arguments (Array below Args) are skipped by
        // `Array::items()`; only the separators of the argument list itself are observable
        // (`Args::trailing_comma()`, `;` building rows)
        self.parent == Some(K::Args)
    }
}

pub fn raw_view(n: &SyntaxNode) -> String {
    match n.cast::<ast::Raw>() {
        Some(raw) => {
            let lines: Vec<String> = raw.lines().map(|l| l.get().to_string()).collect();
            let fence = n.children().next().map(|c| c.text().len()).unwrap_or(0);
            format!(
                "Raw(block={},lang={:?},lines={:?},fence={})",
                raw.block(),
                raw.lang().map(|l| l.get().to_string()),
                lines,
                fence
            )
        }
        None => format!("Raw?:{}", syn::text_of(n)),
    }
}
