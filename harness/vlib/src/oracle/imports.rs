//! C19: import items are reordered only on request, and then only permuted.

use crate::syn::{self, K, LinkedNode, SyntaxNode};

#[derive(Debug, Clone)]
pub struct Import {
    /// formatted text of each item (`a.b`, `a as b`)
    pub items: Vec<String>,
    /// byte ranges of the items
    pub ranges: Vec<(usize, usize)>,
    /// bound names
    pub names: Vec<String>,
    pub has_comment: bool,
}

fn item_text(n: &SyntaxNode) -> String {
    // tokens of the item: identifiers joined by '.', ` as ` for renames; blanks/comments dropped
    let mut s = String::new();
    fn rec(n: &SyntaxNode, s: &mut String) {
        if syn::is_leaf(n) {
            match n.kind() {
                K::Space | K::LineComment | K::BlockComment => {}
                K::As => s.push_str(" as "),
                _ => s.push_str(n.text()),
            }
        } else {
            for c in n.children() {
                rec(c, s);
            }
        }
    }
    rec(n, &mut s);
    s
}

fn bound_name(n: &SyntaxNode) -> String {
    // last identifier of the item (the new name for renames, the last path segment otherwise)
    let mut last = String::new();
    fn rec(n: &SyntaxNode, last: &mut String) {
        if n.kind() == K::Ident {
            *last = n.text().to_string();
        }
        for c in n.children() {
            rec(c, last);
        }
    }
    rec(n, &mut last);
    last
}

pub fn imports(root: &SyntaxNode) -> Vec<Import> {
    let mut out = vec![];
    fn rec(n: &LinkedNode, out: &mut Vec<Import>) {
        if n.kind() == K::ModuleImport {
            let mut imp = Import { items: vec![], ranges: vec![], names: vec![], has_comment: false };
            fn walk(n: &LinkedNode, imp: &mut Import, in_items: bool) {
                for c in n.children() {
                    match c.kind() {
                        K::RenamedImportItem | K::ImportItemPath if in_items => {
                            imp.items.push(item_text(c.get()));
                            imp.names.push(bound_name(c.get()));
                            imp.ranges.push((c.range().start, c.range().end));
                            if syn::any_node(c.get(), &mut |x| syn::is_comment(x.kind())) {
                                imp.has_comment = true;
                            }
                        }
                        K::ImportItems => walk(&c, imp, true),
                        k if syn::is_comment(k) => imp.has_comment = true,
                        _ => {}
                    }
                }
            }
            walk(n, &mut imp, false);
            // "imports that contain comments": anywhere inside the statement
            if syn::any_node(n.get(), &mut |x| syn::is_comment(x.kind())) {
                imp.has_comment = true;
            }
            out.push(imp);
            // the source expression of an import may itself contain imports only via code blocks; descend
        }
        for c in n.children() {
            rec(&c, out);
        }
    }
    rec(&LinkedNode::new(root), &mut out);
    out
}

pub struct ImpOk {
    pub imports: usize,
    /// imports with >= 2 items that are not already sorted and may be sorted
    pub sortable_unsorted: usize,
    pub guarded: usize,
}

fn sorted_by<F: Fn(&str) -> String>(v: &[String], key: F) -> bool {
    v.windows(2).all(|w| key(&w[0]) <= key(&w[1]))
}

pub fn check(src_root: &SyntaxNode, off: &str, on: &str) -> Result<ImpOk, (String, String)> {
    let a = imports(src_root);
    let off_root = syn::parse(off);
    let on_root = syn::parse(on);
    let o = imports(&off_root);
    let n = imports(&on_root);
    if a.len() != o.len() || a.len() != n.len() {
        return Err(("STRUCT".into(), format!("imports: {} in, {} off, {} on", a.len(), o.len(), n.len())));
    }
    let mut ok = ImpOk { imports: a.len(), sortable_unsorted: 0, guarded: 0 };
    for (i, ((x, y), z)) in a.iter().zip(o.iter()).zip(n.iter()).enumerate() {
        if x.items != y.items {
            return Err((
                "C19:off-order-changed".into(),
                format!("import #{i}: items {:?} became {:?} with reordering off", x.items, y.items),
            ));
        }
        let mut sx = x.items.clone();
        let mut sz = z.items.clone();
        sx.sort();
        sz.sort();
        if sx != sz {
            return Err((
                "C19:on-not-permutation".into(),
                format!("import #{i}: items {:?} became {:?} with reordering on", x.items, z.items),
            ));
        }
        let mut names = x.names.clone();
        names.sort();
        let dup = names.windows(2).any(|w| w[0] == w[1]);
        if x.has_comment || dup {
            ok.guarded += 1;
            if x.items != z.items {
                return Err((
                    format!("C19:guard-ignored:{}", if x.has_comment { "comment" } else { "duplicate" }),
                    format!(
                        "import #{i} {} but its items {:?} were reordered to {:?}",
                        if x.has_comment { "contains a comment" } else { "binds a name twice" },
                        x.items,
                        z.items
                    ),
                ));
            }
        } else {
            let bytewise = sorted_by(&z.items, |s| s.to_string());
            let caseless = sorted_by(&z.items, |s| s.to_lowercase());
            if !bytewise && !caseless {
                return Err((
                    "C19:on-not-sorted".into(),
                    format!("import #{i}: items with reordering on are not sorted: {:?}", z.items),
                ));
            }
            if x.items.len() >= 2 && x.items != z.items {
                ok.sortable_unsorted += 1;
            }
        }
    }
    // (4) nothing else differs: put the items of `on` back into the order of `off`
    let mut rebuilt = String::with_capacity(on.len());
    let mut pos = 0;
    let mut feasible = true;
    for (y, z) in o.iter().zip(n.iter()) {
        if y.items.len() != z.items.len() {
            feasible = false;
            break;
        }
        for (k, (s, e)) in z.ranges.iter().enumerate() {
            if *s < pos {
                feasible = false;
                break;
            }
            rebuilt.push_str(&on[pos..*s]);
            rebuilt.push_str(&y.items[k]);
            pos = *e;
        }
    }
    if feasible {
        rebuilt.push_str(&on[pos..]);
        // the same substitution applied to `off` itself normalises item spelling on both sides
        let mut off_norm = String::with_capacity(off.len());
        let mut p = 0;
        for y in &o {
            for (k, (s, e)) in y.ranges.iter().enumerate() {
                off_norm.push_str(&off[p..*s]);
                off_norm.push_str(&y.items[k]);
                p = *e;
            }
        }
        off_norm.push_str(&off[p..]);
        if rebuilt != off_norm {
            let la: Vec<&str> = rebuilt.split('\n').collect();
            let lb: Vec<&str> = off_norm.split('\n').collect();
            let i = la.iter().zip(lb.iter()).position(|(p, q)| p != q).unwrap_or(la.len().min(lb.len()));
            return Err((
                "C19:other-difference".into(),
                format!(
                    "undoing the permutation in the reorder-on output does not give the reorder-off output; first differing line {}: {:?} vs {:?}",
                    i + 1,
                    la.get(i),
                    lb.get(i)
                ),
            ));
        }
    }
    Ok(ok)
}
