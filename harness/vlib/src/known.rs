//! Known findings: genuine defects of the unchanged tree that are recorded instead of repaired.
//!
//! `KNOWN_FINDINGS.txt` (committed, never written at run time) lists them. Each finding has a
//! *trigger*: a predicate on the INPUT alone (never on typstyle's behaviour) that describes the
//! domain of the defect. Inputs containing the trigger are excluded from the random search of
//! the affected properties (counted in the evidence), and the finding's own replay file is
//! re-evaluated on every run: while it still fails the check prints a KNOWN-FINDING line.

use std::collections::BTreeMap;
use std::path::Path;

use crate::syn::{self, K, SyntaxNode};

#[derive(Debug, Clone)]
pub struct KnownEntry {
    pub property: String,
    pub id: String,
    pub replay: String,
    pub what: String,
}

#[derive(Default)]
pub struct Known {
    pub entries: Vec<KnownEntry>,
    /// property -> finding ids active for it
    pub by_prop: BTreeMap<String, Vec<String>>,
}

impl Known {
    pub fn load(path: &Path) -> Known {
        let mut k = Known::default();
        let Ok(text) = std::fs::read_to_string(path) else { return k };
        for line in text.lines() {
            let line = line.trim();
            let Some(rest) = line.strip_prefix("known:") else { continue };
            let mut property = String::new();
            let mut id = String::new();
            let mut replay = String::new();
            let mut what = vec![];
            for tok in rest.split_whitespace() {
                if let Some(v) = tok.strip_prefix("property=") {
                    property = v.to_string();
                } else if let Some(v) = tok.strip_prefix("id=") {
                    id = v.to_string();
                } else if let Some(v) = tok.strip_prefix("replay=") {
                    replay = v.to_string();
                } else {
                    what.push(tok);
                }
            }
            if property.is_empty() || id.is_empty() {
                continue;
            }
            k.by_prop.entry(property.clone()).or_default().push(id.clone());
            k.entries.push(KnownEntry { property, id, replay, what: what.join(" ") });
        }
        k
    }

    pub fn active(&self, prop: &str) -> &[String] {
        self.by_prop.get(prop).map(|v| v.as_slice()).unwrap_or(&[])
    }

    /// First active finding of `prop` whose trigger occurs in `src` (and, for the findings that
    /// only exist for some indent units, in the configuration; `None` = any configuration).
    pub fn excluded(&self, prop: &str, src: &str, root: &SyntaxNode, cfg: Option<&crate::api::Cfg>) -> Option<String> {
        let act = self.active(prop);
        if act.is_empty() {
            return None;
        }
        let trig = triggers(src, root);
        act.iter()
            .find(|id| {
                trig.iter().any(|t| {
                    (*t == id.as_str() && applies(id, cfg))
                        || (*t == "R22w" && id.as_str() == "R22")
                        || (*t == "R31s" && id.as_str() == "R31")
                })
            })
            .cloned()
    }
}

/// Findings whose defect depends on the indent unit (measured on the pinned tree over a grid of
/// shapes x units): R22 (markers nested on one line) needs a unit other than the marker width 2,
/// R31 (item on the line of the opening bracket, behind `#[` or a callee) a unit other than 2. With the default unit these input
/// classes are searched like any other.
fn applies(id: &str, cfg: Option<&crate::api::Cfg>) -> bool {
    match (id, cfg) {
        ("R22", Some(c)) => c.tab != 2,
        ("R31", Some(c)) => c.tab != 2,
        _ => true,
    }
}

/// All finding triggers present in a source text. Purely syntactic predicates on the input.
pub fn triggers(src: &str, root: &SyntaxNode) -> Vec<&'static str> {
    let mut v: Vec<&'static str> = vec![];
    let mut add = |id: &'static str| {
        if !v.contains(&id) {
            v.push(id);
        }
    };
    // R1 (CR form): CR, blanks (or further CRs), LF inside text that is copied verbatim -- a string, raw text,
    // a comment, a node behind `@typstyle off` --: stripping the blanks makes it a CRLF pair, one line break.
    // (In ordinary blanks between tokens typstyle counts the line breaks itself; seeded change C08-6 lives there.)
    {
        let b = src.as_bytes();
        let verbatim_anywhere = src.contains("@typstyle off");
        let mut spans: Vec<(usize, usize)> = vec![];
        if !verbatim_anywhere {
            for f in syn::flatten(root) {
                if matches!(f.node.kind(), K::Str | K::Raw | K::BlockComment | K::LineComment) {
                    spans.push((f.start, f.end));
                }
            }
        }
        let mut i = 0;
        while i < b.len() {
            if b[i] == b'\r' {
                let mut j = i + 1;
                while j < b.len() && (b[j] == b' ' || b[j] == b'\t' || b[j] == b'\r') {
                    j += 1;
                }
                if j > i + 1 && j < b.len() && b[j] == b'\n' && (verbatim_anywhere || spans.iter().any(|(s, e)| *s <= i && j < *e)) {
                    add("R1");
                }
            }
            i += 1;
        }
    }
    let flat = syn::flatten(root);
    // ancestors in math?
    let in_math: Vec<bool> = {
        let mut m = vec![false; flat.len()];
        for i in 0..flat.len() {
            let up = flat[i].parent_idx.map(|p| m[p]).unwrap_or(false);
            m[i] = match flat[i].node.kind() {
                K::Equation | K::Math => true,
                K::Markup | K::Code | K::CodeBlock | K::ContentBlock => false,
                _ => up,
            };
        }
        m
    };
    let leaves: Vec<usize> = (0..flat.len()).filter(|&i| syn::is_leaf(flat[i].node)).collect();
    for (li, &i) in leaves.iter().enumerate() {
        let f = &flat[i];
        let k = f.node.kind();
        match k {
            // R1: blanks before an embedded line feed inside a string token are stripped by the
            // final strip_trailing_whitespace pass, which has no token knowledge.
            K::Str => {
                if ends_line_with_blank(f.node.text()) {
                    add("R1");
                }
            }
            // R11: in math a `\` line break directly followed (ignoring blanks) by a comment, a
            // separator or a closing parenthesis is glued to it and becomes an escape sequence.
            // R37: typstyle splits block comments at LF / CRLF only; other line terminators inside
            // a comment stay in the middle of a "line" and the re-alignment differs between passes.
            K::BlockComment if f.node.text().chars().any(|c| syn::is_nl(c) && c != '\n') => add("R37"),
            // R24 (second form): a `;` that terminates embedded code inside math
            // (only inside an argument list: elsewhere it was repaired by the fix for fractions)
            K::Semicolon if in_math[i] && matches!(f.parent, Some(K::Args | K::Array | K::Named | K::Spread)) => {
                // the `;` follows embedded code directly (blanks ignored): the last token before it
                // belongs to an expression behind a `#` inside the same argument list
                let prev = leaves[..li].iter().rev().map(|&j| j).find(|&j| flat[j].node.kind() != K::Space);
                if let Some(mut j) = prev {
                    let stop = f.parent_idx;
                    let mut hit = false;
                    loop {
                        // previous sibling of flat[j] a hash?
                        if let Some(p) = flat[j].parent_idx {
                            let mut prev_sib: Option<K> = None;
                            for g in flat.iter().filter(|g| g.parent_idx == Some(p)) {
                                if g.start == flat[j].start && g.end == flat[j].end && std::ptr::eq(g.node, flat[j].node) {
                                    break;
                                }
                                if g.node.kind() != K::Space {
                                    prev_sib = Some(g.node.kind());
                                }
                            }
                            if prev_sib == Some(K::Hash) {
                                hit = true;
                                break;
                            }
                            if Some(p) == stop || flat[p].node.kind() == K::Equation {
                                break;
                            }
                            j = p;
                        } else {
                            break;
                        }
                    }
                    // `#x;;`: a second semicolon right behind one that ended code
                    if hit || flat[j].node.kind() == K::Semicolon {
                        add("R24");
                    }
                }
            }
            // R11 (markup form): a `\` line break whose trailing blank is an edge blank of an item body
            // directly before `]` is glued to the bracket (`#[+ \ ]` -> `#[+ \]`)
            K::Linebreak if !in_math[i] => {
                let next = leaves[li + 1..].iter().map(|&j| &flat[j]).find(|g| g.node.kind() != K::Space);
                // only inside a list / enum / term item (the blank behind a trailing item is dropped) -- a
                // heading, plain text, strong or emphasis before the bracket keep their blank on the pinned
                // tree (seeded change C04-6 lived in the wider trigger) -- or as the end of the term of a
                // term item (`/ a \ : b` -> `/ a \: b`)
                let mut in_item = false;
                let mut cur = f.parent_idx;
                while let Some(p) = cur {
                    match flat[p].node.kind() {
                        K::ListItem | K::EnumItem | K::TermItem => {
                            in_item = true;
                            break;
                        }
                        K::ContentBlock | K::Strong | K::Emph | K::Heading => break,
                        _ => {}
                    }
                    cur = flat[p].parent_idx;
                }
                if in_item && next.is_some_and(|n| matches!(n.node.kind(), K::RightBracket | K::Colon)) {
                    add("R11");
                }
            }
            // R11 (attachment form): `\` as the base of an attachment / fraction, where blanks are dropped
            K::Linebreak if in_math[i] && matches!(f.parent, Some(K::MathAttach | K::MathFrac | K::MathRoot)) => add("R11"),
            K::Linebreak if in_math[i] => {
                let next = leaves[li + 1..].iter().map(|&j| &flat[j]).find(|g| g.node.kind() != K::Space);
                if let Some(n) = next {
                    if matches!(n.node.kind(), K::LineComment | K::BlockComment | K::Comma | K::Semicolon | K::RightParen) {
                        add("R11");
                    }
                }
            }
            _ => {}
        }
    }
    // R68: an unterminated block comment at the very end that ends in blanks
    if let Some(&i) = leaves.last() {
        let t = flat[i].node.text();
        if flat[i].node.kind() == K::BlockComment && !t.ends_with("*/") && t.chars().last().is_some_and(|c| c.is_whitespace()) {
            add("R68");
        }
    }
    // R54: `@typstyle off` before a list / enum / term item: the item's first line is placed at
    // the new indentation, its continuation lines keep the old one, so the nesting changes
    for d in crate::oracle::off::disabled_nodes(root, true) {
        if matches!(d.kind, K::ListItem | K::EnumItem | K::TermItem) {
            add("R54");
        }
    }
    // R56: a directive in front of something that is not an expression (a named or spread
    // argument, a parameter, ...): typstyle marks that node and does not look inside it any more,
    // so directives inside it are ignored
    for f in flat.iter() {
        let mut pending = false;
        for c in f.node.children() {
            let k = c.kind();
            if syn::is_comment(k) {
                if c.text().contains(crate::oracle::off::DIRECTIVE) {
                    pending = true;
                }
                continue;
            }
            if matches!(k, K::Space | K::Hash) {
                continue;
            }
            if pending {
                pending = false;
                let claimed = c.cast::<syn::ast::Expr>().is_some() || matches!(k, K::Code | K::Math);
                if !claimed
                    && syn::any_node(c, &mut |x| syn::is_comment(x.kind()) && x.text().contains(crate::oracle::off::DIRECTIVE))
                {
                    add("R56");
                }
            }
        }
    }
    // sibling-based rules
    for f in flat.iter() {
        let kids: Vec<&SyntaxNode> = f.node.children().collect();
        // R62: a markup line whose only prose pieces are escapes, shorthands, smart quotes, links,
        // labels, references or equations is not recognised as a text line: code embedded in it is
        // broken over lines by the normal width rules, which separates the pieces
        if f.node.kind() == K::Markup {
            let (mut texty, mut other, mut code) = (false, 0, false);
            let mut flush = |texty: &mut bool, other: &mut usize, code: &mut bool, add: &mut dyn FnMut(&'static str)| {
                if !*texty && *other >= 1 && *code {
                    add("R62");
                }
                *texty = false;
                *other = 0;
                *code = false;
            };
            for c in kids.iter() {
                if c.kind() == K::Parbreak || (c.kind() == K::Space && syn::has_nl(c.text())) {
                    flush(&mut texty, &mut other, &mut code, &mut add);
                    continue;
                }
                match c.kind() {
                    K::Text | K::Strong | K::Emph | K::Raw => texty = true,
                    K::Escape | K::Shorthand | K::SmartQuote | K::Link | K::Label | K::Ref | K::Equation | K::Linebreak => other += 1,
                    K::Hash => code = true,
                    _ => {}
                }
            }
            flush(&mut texty, &mut other, &mut code, &mut add);
        }
        // R64: a block comment that starts a markup line and has content after it on the same
        // line: Typst takes the line's indentation and its markers at the first token after the
        // comment, typstyle at the comment
        if f.node.kind() == K::Markup {
            let mut line_start = true;
            for (w, c) in kids.iter().enumerate() {
                match c.kind() {
                    K::Parbreak => line_start = true,
                    K::Space => {
                        if syn::has_nl(c.text()) {
                            line_start = true;
                        }
                    }
                    K::BlockComment if line_start => {
                        // stays "line start" for a following comment; content on the same line?
                        let next = kids[w + 1..].iter().find(|n| !(n.kind() == K::Space && !syn::has_nl(n.text())) && n.kind() != K::BlockComment);
                        if next.is_some_and(|n| !matches!(n.kind(), K::Parbreak | K::Space | K::LineComment)) {
                            add("R64");
                        }
                    }
                    _ => line_start = false,
                }
            }
        }
        // R49: a comment inside code that sits on a markup line which also holds text (optional
        // line breaks are suppressed there): the layout with the comment differs from pass to pass
        if f.node.kind() == K::Markup {
            let mut line_text = false;
            let mut line_cmt_in_code = false;
            for c in kids.iter() {
                let brk = c.kind() == K::Parbreak || (c.kind() == K::Space && syn::has_nl(c.text()));
                if brk {
                    if line_text && line_cmt_in_code {
                        add("R49");
                    }
                    line_text = false;
                    line_cmt_in_code = false;
                    continue;
                }
                match c.kind() {
                    K::Text | K::Strong | K::Emph | K::Raw => line_text = true,
                    K::Space | K::Hash | K::LineComment | K::BlockComment => {}
                    _ => {
                        if syn::any_node(c, &mut |x| syn::is_comment(x.kind())) {
                            line_cmt_in_code = true;
                        }
                    }
                }
            }
            if line_text && line_cmt_in_code {
                add("R49");
            }
        }
        // R50: comments between the dot and the field name of a field access: two or more of them (they are
        // glued together by the first pass), or one behind a number (`5 ./**/h` -> `5./**/h`, a float). A single
        // comment behind the dot of an ordinary target is laid out correctly on the pinned tree (seeded change
        // C04-9 lived in the wider trigger).
        if f.node.kind() == K::FieldAccess {
            let mut after_dot = false;
            let mut n = 0;
            for c in &kids {
                match c.kind() {
                    K::Dot => after_dot = true,
                    K::Space => {}
                    k if syn::is_comment(k) && after_dot => n += 1,
                    _ => after_dot = false,
                }
            }
            let number_target = kids.first().is_some_and(|c| matches!(c.kind(), K::Int | K::Float));
            if n >= 2 || (n == 1 && number_target) {
                add("R50");
            }
        }
        for w in 0..kids.len() {
            let c = kids[w];
            if !syn::is_comment(c.kind()) {
                continue;
            }
            // R45: two comments glued together without a blank between them, or with inline blanks
            // only (typstyle glues them in some layouts and separates them in the next pass)
            {
                let mut j = w;
                while j > 0 && kids[j - 1].kind() == K::Space && !syn::has_nl(kids[j - 1].text()) {
                    j -= 1;
                }
                if j > 0 && kids[j - 1].kind() == K::BlockComment {
                    add("R45");
                }
            }
            // R33: a multi-line block comment that starts on the line where a multi-line token or
            // node ends is re-aligned relative to a column that moves between passes
            if c.kind() == K::BlockComment && syn::has_nl(c.text()) {
                let mut j = w;
                while j > 0 {
                    j -= 1;
                    let p = kids[j];
                    if p.kind() == K::Space {
                        if syn::has_nl(p.text()) {
                            break;
                        }
                        continue;
                    }
                    // any earlier sibling on the same line that spans several lines because of a token
                    // that is copied verbatim (string, raw text, a node behind `@typstyle off`, an
                    // equation with a multi-line comment): the printer loses track of the column there
                    if syn::has_nl(&syn::text_of(p)) {
                        let verbatim = syn::any_node(p, &mut |x| {
                            (matches!(x.kind(), K::Str | K::Raw) && syn::has_nl(&syn::text_of(x)))
                                || (syn::is_comment(x.kind()) && x.text().contains(crate::oracle::off::DIRECTIVE))
                        }) || matches!(p.kind(), K::Str | K::Raw)
                            || kids[..j].iter().any(|q| syn::is_comment(q.kind()) && q.text().contains(crate::oracle::off::DIRECTIVE));
                        if verbatim {
                            add("R33");
                            break;
                        }
                    }
                }
            }
        }
    }
    for (i, f) in flat.iter().enumerate() {
        let k = f.node.kind();
        // R66 / R67: the padding blanks of a math call's argument list are dropped although the
        // neighbouring characters then fuse: a combining mark with the parenthesis before it,
        // two dots with the parenthesis / separator after them (a spread)
        if matches!(k, K::Args | K::Array) && in_math[i] {
            let kids: Vec<&SyntaxNode> = f.node.children().collect();
            for w in 0..kids.len() {
                let txt = syn::text_of(kids[w]);
                if w > 0 && matches!(kids[w - 1].kind(), K::Space) && txt.chars().next().is_some_and(is_combining) {
                    add("R66");
                }
                if txt.ends_with("..")
                    && kids.get(w + 1).is_some_and(|n| n.kind() == K::Space)
                    && kids.get(w + 2).is_none_or(|n| matches!(n.kind(), K::RightParen | K::Comma | K::Semicolon))
                {
                    add("R67");
                }
            }
        }
        // rules whose node kinds overlap get a match of their own
        match k {
            // R33: a multi-line block comment in an argument list that also holds a multi-line raw
            // or string argument is re-aligned relative to a column that moves between passes.
            K::Args | K::Array | K::Dict | K::Keyed | K::Named | K::Params | K::Destructuring | K::Parenthesized
                if f.node.children().any(|c| c.kind() == K::BlockComment && syn::has_nl(c.text()))
                    && syn::any_node(f.node, &mut |x| matches!(x.kind(), K::Raw | K::Str) && syn::has_nl(&syn::text_of(x))) =>
            {
                add("R33");
                if in_math[i] && k == K::Args {
                    add("R39");
                }
            }
            _ => {}
        }
        match k {
            // R39: comments inside the argument list of a math call (with 2-D rows, delimiters and
            // line breaks around them) are placed differently from pass to pass.
            K::Args | K::Array if in_math[i] && f.node.children().any(|c| syn::is_comment(c.kind())) => add("R39"),
            _ => {}
        }
        match k {
            // R40: 2-D math arguments with an empty cell or row (two separators in a row, a separator
            // right after `(` or right before `)`): blanks around them differ between passes.
            K::Args if in_math[i] && f.node.children().any(|c| c.kind() == K::Semicolon) && {
                let sig: Vec<K> = f.node.children().filter(|c| c.kind() != K::Space).map(|c| c.kind()).collect();
                let sep = |k: K| matches!(k, K::Comma | K::Semicolon);
                let mut empty_cell = sig.windows(2).any(|w| (sep(w[0]) || w[0] == K::LeftParen) && (sep(w[1]) || w[1] == K::RightParen));
                // rows are arrays: a row that ends with a comma
                empty_cell |= f.node.children().any(|c| c.kind() == K::Array && c.children().filter(|x| x.kind() != K::Space).last().is_some_and(|x| x.kind() == K::Comma));
                empty_cell
            } => add("R40"),
            _ => {}
        }
        match k {
            // R28: blanks inside an attachment are dropped, also between two groups of primes
            // (`$f' '^2$` -> `$f''^2$`).
            K::MathAttach if f.node.children().filter(|c| c.kind() == K::MathPrimes).count() >= 2 => add("R28"),
            _ => {}
        }
        match k {
            K::Raw => {
                // blanks behind the opening fence / language tag of a raw block are not content (Typst trims
                // them): the line of the opening fence is left out (seeded change C10-8 lived there)
                let whole = syn::text_of(f.node);
                let fence_line_is_tag_only = {
                    let first = whole.split(syn::is_nl).next().unwrap_or("");
                    let rest = first.trim_start_matches('`');
                    let tag_end = rest.find(|c: char| !(c.is_alphanumeric() || c == '_' || c == '-')).unwrap_or(rest.len());
                    // (a language tag is an identifier: it cannot start with a digit or a hyphen)
                    let tag_ok = rest[..tag_end].chars().next().map_or(true, |c| c.is_alphabetic() || c == '_');
                    first.starts_with("```") && tag_ok && rest[tag_end..].chars().all(|c| c == ' ' || c == '\t')
                };
                let txt: String = if fence_line_is_tag_only {
                    match whole.char_indices().find(|(_, c)| syn::is_nl(*c)) {
                        Some((i, _)) => whole[i..].to_string(),
                        None => whole.clone(),
                    }
                } else {
                    whole.clone()
                };
                if ends_line_with_blank(&txt) {
                    add("R1");
                }
                // blank before the closing fence on the last line is content the same pass may strip
                if txt.split(syn::is_nl).skip(1).any(|l| l.chars().last().is_some_and(|c| c.is_whitespace())) && syn::has_nl(&txt) {
                    add("R1");
                }
                if !fence_line_is_tag_only
                    && whole.split(syn::is_nl).any(|l| l.chars().last().is_some_and(|c| c.is_whitespace()))
                    && syn::has_nl(&whole)
                {
                    add("R1");
                }
            }
            // R3: parentheses around a number literal are dropped although what follows then fuses
            // with the number (`#(1).` -> `#1.`, `#(1)em`, `(2.).x` -> `2..x`, `$#(7)n$` -> `$#7n$`).
            K::Parenthesized => {
                // R48: parentheses nested directly in parentheses with a comment inside: one layer is
                // removed per pass
                if f.node.children().any(|c| c.kind() == K::Parenthesized) && syn::any_node(f.node, &mut |x| syn::is_comment(x.kind())) {
                    add("R48");
                }
                // innermost expression below any number of nested parentheses
                let mut cur = f.node;
                let mut only = true;
                let first = loop {
                    let mut inner = cur.children().filter(|c| !matches!(c.kind(), K::LeftParen | K::RightParen | K::Space));
                    let first = inner.next();
                    only &= inner.next().is_none();
                    match first {
                        Some(c) if c.kind() == K::Parenthesized => cur = c,
                        other => break other,
                    }
                };
                if only && first.is_some_and(|c| matches!(c.kind(), K::Int | K::Float | K::Numeric | K::None | K::Auto | K::Bool)) {
                    let code_ctx = matches!(
                        f.parent,
                        Some(
                            K::Args | K::Array | K::Dict | K::Named | K::Keyed | K::Binary | K::Unary | K::Parenthesized
                                | K::Code | K::LetBinding | K::Closure | K::Conditional | K::WhileLoop | K::ForLoop
                                | K::SetRule | K::ShowRule | K::FuncReturn | K::Spread | K::DestructAssignment
                                | K::Contextual | K::Params | K::Destructuring
                        )
                    );
                    // ... or the parentheses end a piece of embedded code and text follows them directly
                    // (`#context(1).`: the number fuses with the dot behind it whatever encloses the parentheses)
                    let fused = flat.iter().any(|g| {
                        g.start == f.end
                            && g.node.children().len() == 0
                            && matches!(g.node.kind(), K::Text | K::MathText | K::MathIdent)
                            && g.node.text().chars().next().is_some_and(|ch| ch == '.' || ch.is_alphanumeric() || ch == '_')
                    });
                    if !code_ctx || fused {
                        add("R3");
                    }
                }
            }
            // R41: a table / grid call whose `columns` value is wrapped in parentheses: the first
            // pass removes them, only the second pass then recognises the column count and re-flows
            // the cells.
            K::FuncCall
                if matches!(f.node.children().next().map(|c| c.text().as_str()), Some("table" | "grid"))
                    && syn::any_node(f.node, &mut |x| {
                        x.kind() == K::Named
                            && x.children().next().is_some_and(|n| n.text() == "columns")
                            && x.children().any(|v| v.kind() == K::Parenthesized)
                    }) =>
            {
                add("R41")
            }
            // R24: in a math call `;` directly after embedded code would end the code expression,
            // so typstyle keeps a blank before it -- but only for positional arguments, not when
            // the embedded code sits in a named or spread argument (`$f(..#g ;a)$` -> `$f(..#g; a)$`).
            K::Args if f.node.children().any(|c| c.kind() == K::Semicolon) => {
                // (generous: any embedded code inside a 2-D argument list; `#x;;` loses a semicolon too)
                // (the trigger proper is the Semicolon rule above: a `;` directly behind embedded code)
                let _ = in_math[i];
            }
            // R29: a row of 2-D math arguments that is laid out one item per line (it holds a line
            // comment, or its first blank holds a line break) gets a trailing comma, i.e. one more
            // (empty) cell: `$mat(3, // c<nl>4; 1)$` -> `3, // c<nl>4,; 1`.
            K::Array if in_math[i] && f.parent == Some(K::Args) => {
                let has_line_comment = f.node.children().any(|c| c.kind() == K::LineComment);
                let first_space_nl = f.node.children().find(|c| c.kind() == K::Space).is_some_and(|c| syn::has_nl(c.text()));
                if has_line_comment || first_space_nl {
                    add("R29");
                }
            }
            // R26: a parenthesised import item list with a comment after its last item: when the
            // parentheses are omitted the comment leaves the import statement, so the next pass sees
            // a comment-free list (it may then be reordered, and the line break after it counts as a
            // space). Also an empty parenthesised list.
            // R26 (operand form): a parenthesised item list of an import inside a larger expression
            K::ModuleImport
                if f.node.children().any(|c| c.kind() == K::LeftParen)
                    && !matches!(f.parent, Some(K::Code | K::Markup | K::Math | K::CodeBlock) | None) =>
            {
                add("R26")
            }
            K::ModuleImport
                if f.node.children().any(|c| c.kind() == K::LeftParen)
                    || f.node.children().filter(|c| c.kind() == K::ImportItems).any(|it| {
                        it.children().filter(|x| x.kind() != K::Space && x.kind() != K::Comma).last().is_some_and(|x| syn::is_comment(x.kind()))
                    }) =>
            {
                let items = f.node.children().find(|c| c.kind() == K::ImportItems);
                let n_items = items.map(|it| it.children().filter(|c| matches!(c.kind(), K::ImportItemPath | K::RenamedImportItem)).count()).unwrap_or(0);
                // last significant thing before the closing parenthesis
                let mut last_is_comment = false;
                for c in f.node.children() {
                    match c.kind() {
                        K::RightParen => break,
                        K::Space => {}
                        k if syn::is_comment(k) => last_is_comment = true,
                        K::ImportItems => {
                            last_is_comment = c.children().filter(|x| x.kind() != K::Space && x.kind() != K::Comma).last().is_some_and(|x| syn::is_comment(x.kind()));
                        }
                        _ => last_is_comment = false,
                    }
                }
                let any_comment = syn::any_node(f.node, &mut |x| syn::is_comment(x.kind()));
                if n_items == 0 || last_is_comment || any_comment {
                    add("R26");
                }
            }
            // R60: a run of several blanks inside a heading / item body is collapsed to one; Typst
            // lexes the following text differently then (`=== ,  1...1`: `1...1` is text after two
            // blanks, `1` `...` `1` after one)
            // (evaluated in the guard, which then falls through: a later arm handles Markup bodies as well, and an
            // arm that matched here would hide every trigger of that arm -- it did, for an input with two blanks)
            K::Markup if {
                let hit = {
                let kids: Vec<&SyntaxNode> = f.node.children().collect();
                let run = |x: &SyntaxNode| x.kind() == K::Space && !syn::has_nl(x.text()) && x.text().chars().count() >= 2;
                let in_body = matches!(f.parent, Some(K::Heading | K::ListItem | K::EnumItem | K::TermItem));
                let _ = in_body;
                (kids.windows(2).any(|w| run(w[0]) && w[1].kind() == K::Text && w[1].text().chars().next().is_some_and(|c| c.is_ascii_digit())))
                    // ... or the text after the run carries a label, which then attaches to the merged text
                    || kids.windows(3).any(|w| run(w[0]) && w[1].kind() == K::Text && w[2].kind() == K::Label)
                    || kids.windows(4).any(|w| run(w[0]) && w[1].kind() == K::Text && w[2].kind() == K::Space && w[3].kind() == K::Label)
                };
                if hit {
                    add("R60");
                }
                false
            } => {}
            // R61: redundant parentheses around an array on the left of `=`: removing them turns the
            // assignment into a destructuring assignment (`(((a),)) = b` -> `((a),) = b`)
            K::Binary
                if f.node.children().any(|c| matches!(c.kind(), K::Eq))
                    && f.node.children().next().is_some_and(|l| {
                        l.kind() == K::Parenthesized && syn::any_node(l, &mut |x| matches!(x.kind(), K::Array | K::Dict))
                    }) =>
            {
                add("R61")
            }
            // R3 (float form): a float written with a trailing dot before a field access on the next
            // line (`2.<nl>.at(0)`) is joined to `2..at(0)`
            K::FieldAccess if {
                if f.node.children().next().is_some_and(|t| t.kind() == K::Float && t.text().ends_with('.')) {
                    add("R3");
                }
                false // falls through to the later FieldAccess arm
            } => {}
            // R63: parentheses around a string used as dictionary key are removed; the key then is a
            // literal key and two equal ones are a syntax error (`(("k"): 1, ("k"): 1)`)
            K::Keyed if f.node.children().next().is_some_and(|c| c.kind() == K::Parenthesized && syn::any_node(c, &mut |x| x.kind() == K::Str)) => add("R63"),
            // R72: a White_Space character other than space / tab is text in markup; when it is the last
            // character of a markup line the final strip pass removes it (C11 asks for exactly that, C01 / C08
            // for the opposite)
            K::Text if f.node.text().chars().last().is_some_and(|c| c.is_whitespace() && !c.is_ascii()) => add("R72"),
            // R12: a comment directly inside a heading (between marker and body)
            K::Heading
                if f.node.children().any(|c| {
                    syn::is_comment(c.kind())
                        || (c.kind() == K::Markup
                            && (c.children().len() == 0
                                || c.children().find(|x| x.kind() != K::Space).is_some_and(|x| syn::is_comment(x.kind()))))
                }) =>
            {
                add("R12")
            }
            // R32: a code block whose only statement is an import with an item list: when the item
            // list has to be broken the block is not, and the next pass lays it out differently.
            K::CodeBlock => {
                // R46: a code block holding nothing but comments
                let n_exprs = f
                    .node
                    .children()
                    .find(|c| c.kind() == K::Code)
                    .map(|code| code.children().filter(|c| c.cast::<syn::ast::Expr>().is_some()).count())
                    .unwrap_or(0);
                let direct_comment = f.node.children().any(|c| syn::is_comment(c.kind()))
                    || f.node.children().filter(|c| c.kind() == K::Code).any(|c| c.children().any(|x| syn::is_comment(x.kind())));
                // ... or whose opening brace is not followed by a line break (the first pass then
                // writes it on one line)
                let opens_on_one_line = !f
                    .node
                    .children()
                    .skip_while(|c| c.kind() != K::LeftBrace)
                    .nth(1)
                    .is_some_and(|c| c.kind() == K::Space && syn::has_nl(c.text()));
                if direct_comment && (n_exprs == 0 || !syn::has_nl(&syn::text_of(f.node)) || opens_on_one_line) {
                    add("R46");
                }
                // R51: several statements on one source line (`{3;e}`): the block has to be broken;
                // inside a call on a text line or inside math the enclosing list is only broken by
                // the second pass, which sees a multi-line argument
                if n_exprs >= 2 && !syn::has_nl(&syn::text_of(f.node)) {
                    add("R51");
                }
                if let Some(code) = f.node.children().find(|c| c.kind() == K::Code) {
                    let mut exprs = code.children().filter(|c| c.cast::<syn::ast::Expr>().is_some());
                    let first = exprs.next();
                    if exprs.next().is_none()
                        && first.is_some_and(|e| e.kind() == K::ModuleImport && e.children().any(|c| c.kind() == K::ImportItems))
                    {
                        add("R32");
                    }
                }
            }
            // R44: a comment directly inside a math delimiter pair gains / loses blanks
            // (a line comment anywhere in the pair, or any comment as the last thing before the closing
            // delimiter; a block comment followed by content is laid out consistently)
            K::MathDelimited
                if {
                    let mut seq: Vec<&SyntaxNode> = vec![];
                    for c in f.node.children() {
                        if c.kind() == K::Math {
                            seq.extend(c.children());
                        } else {
                            seq.push(c);
                        }
                    }
                    let sig: Vec<&SyntaxNode> = seq.iter().copied().filter(|c| c.kind() != K::Space).collect();
                    // ... or a comment right behind the opening delimiter that is followed by a line break
                    let first_then_nl = seq.iter().position(|c| syn::is_comment(c.kind())).is_some_and(|i| {
                        seq[..i].iter().filter(|c| c.kind() != K::Space).count() == 1
                            && seq.get(i + 1).is_some_and(|n| n.kind() == K::Space && syn::has_nl(n.text()))
                    });
                    first_then_nl || sig.iter().any(|c| c.kind() == K::LineComment) || (sig.len() >= 2 && syn::is_comment(sig[sig.len() - 2].kind()))
                } =>
            {
                add("R44")
            }
            // R21: a list / enum / term item whose body (or term) is empty: the blank after the
            // marker is dropped and the marker becomes text (`[- ]` -> `[-]`).
            K::ListItem | K::EnumItem | K::TermItem => {
                let empty = f
                    .node
                    .children()
                    .filter(|c| c.kind() == K::Markup)
                    .any(|m| m.children().all(|x| x.kind() == K::Space || syn::is_comment(x.kind())));
                let no_markup = !f.node.children().any(|c| c.kind() == K::Markup);
                // ... or the body only starts on a later line
                let late_body = f
                    .node
                    .children()
                    .skip_while(|c| !matches!(c.kind(), K::ListMarker | K::EnumMarker | K::TermMarker))
                    .nth(1)
                    .is_some_and(|c| c.kind() == K::Parbreak || (c.kind() == K::Space && syn::has_nl(c.text())));
                if empty || no_markup || late_body {
                    add("R21");
                }
                // R9: a comment as the first thing of an item body (on the line after the marker)
                // is indented by unit + 1
                let comment_first = f.node.children().filter(|c| c.kind() == K::Markup).any(|m| {
                    m.children().find(|x| x.kind() != K::Space).is_some_and(|x| syn::is_comment(x.kind()))
                });
                // (or directly inside the item, between marker / colon and body)
                if comment_first || f.node.children().any(|c| syn::is_comment(c.kind())) {
                    add("R9");
                }
                // R73: a comment directly behind the marker, before the body: a blank is put after it, the body
                // then starts with a space element (visible only when the content is shown with `repr`)
                if f.node.children().any(|c| syn::is_comment(c.kind())) {
                    add("R73");
                }
                if f.node.children().any(|c| c.kind() == K::BlockComment && syn::has_nl(c.text())) {
                    add("R64");
                }
                // R64 (item form): a multi-line block comment right behind the marker with content after it
                // on its last line: the body's column is measured behind the comment
                if f.node.children().filter(|c| c.kind() == K::Markup).any(|m| {
                    let mut it = m.children().filter(|x| !(x.kind() == K::Space && !syn::has_nl(x.text())));
                    it.next().is_some_and(|x| x.kind() == K::BlockComment && syn::has_nl(x.text())) && it.next().is_some_and(|n| !matches!(n.kind(), K::Space | K::Parbreak))
                }) {
                    add("R64");
                }
                // R22: an item whose body starts with another item on the same line (`+ - x`):
                // continuation lines are re-indented by tab_spaces, which for tab_spaces >= 3
                // moves them into the inner item.
                let nested_same_line = f.node.children().filter(|c| c.kind() == K::Markup).any(|m| {
                    m.children().find(|x| x.kind() != K::Space || syn::has_nl(x.text())).is_some_and(|x| {
                        matches!(x.kind(), K::ListItem | K::EnumItem | K::TermItem)
                    })
                });
                if nested_same_line {
                    // with the default unit 2 only parents whose marker is not two columns wide
                    // (terms, numbered enum items) are affected: see `applies`
                    let two_col_marker = f.node.children().next().is_some_and(|m| matches!(m.text().as_str(), "-" | "+"));
                    add(if two_col_marker { "R22" } else { "R22w" });
                }
            }
            // R18: the blank at the inner edge of a content block / strong / emph body may be turned
            // into a line break; text that looks like a list, enum, term or heading marker then
            // becomes one (`#[ = a<newline>b ]` -> a heading).
            K::Markup if matches!(f.parent, Some(K::ContentBlock | K::Strong | K::Emph)) => {
                // R31: an item that starts on the line of the opening bracket (`#[+ f<nl><nl>x]`): the
                // following lines are re-indented by tab_spaces, which for tab_spaces >= 3 is deeper
                // than the marker's column, so they become part of the item.
                if f.parent == Some(K::ContentBlock) {
                    let first = f.node.children().find(|c| c.kind() != K::Space || syn::has_nl(c.text()));
                    if first.is_some_and(|c| matches!(c.kind(), K::ListItem | K::EnumItem | K::TermItem)) {
                        // where can the bracket stand on its output line? Behind `#` or a callee (marker two
                        // or more columns behind the indentation: units >= 3 are affected) or, as an item
                        // of a code list, at the start of the line (units >= 2 are affected)
                        let block = f.parent_idx.map(|p| &flat[p]);
                        let behind_something = block.is_some_and(|b| {
                            match b.parent {
                                Some(K::Markup | K::Math | K::Equation | K::MathDelimited | K::MathAttach | K::MathFrac | K::MathRoot) => true,
                                // trailing content argument: `f(..)[` / `f[`
                                Some(K::Args) => b.parent_idx.is_some_and(|a| {
                                    // what stands before the bracket spans several lines (a multi-line string as
                                    // callee, arguments broken over lines): the bracket is close to the start of
                                    // its line after all
                                    let call_start = flat[a].parent_idx.map(|c| flat[c].start).unwrap_or(flat[a].start);
                                    if src.get(call_start..b.start).is_some_and(syn::has_nl) {
                                        return false;
                                    }
                                    let mut seen_close = !flat[a].node.children().any(|c| c.kind() == K::LeftParen);
                                    let mut off = flat[a].start;
                                    for c in flat[a].node.children() {
                                        if off == b.start {
                                            return seen_close;
                                        }
                                        if c.kind() == K::RightParen {
                                            seen_close = true;
                                        }
                                        off += c.len();
                                    }
                                    false
                                }),
                                _ => false,
                            }
                        });
                        // on a markup line that also holds text, or inside an equation, optional line breaks
                        // are suppressed: the item always stays behind the bracket, whatever the unit
                        let suppressed = {
                            let mut cur = f.parent_idx;
                            let mut res = false;
                            while let Some(ci) = cur {
                                match flat[ci].parent {
                                    Some(K::Math | K::Equation | K::MathDelimited | K::MathAttach | K::MathFrac | K::MathRoot) => {
                                        res = true;
                                        break;
                                    }
                                    Some(K::Markup) => {
                                        // siblings of flat[ci] on the same line
                                        let pi = flat[ci].parent_idx.unwrap();
                                        let sibs: Vec<&syn::Flat> = flat.iter().filter(|g| g.parent_idx == Some(pi)).collect();
                                        let pos = sibs.iter().position(|g| g.start == flat[ci].start && g.end == flat[ci].end).unwrap_or(0);
                                        let is_brk = |g: &syn::Flat| g.node.kind() == K::Parbreak || (g.node.kind() == K::Space && syn::has_nl(g.node.text()));
                                        let texty = |g: &syn::Flat| matches!(g.node.kind(), K::Text | K::Strong | K::Emph | K::Raw | K::Escape | K::Shorthand | K::SmartQuote | K::Link | K::Ref | K::Label | K::Linebreak | K::Equation);
                                        let mut k = pos;
                                        while k > 0 && !is_brk(sibs[k - 1]) {
                                            k -= 1;
                                            if texty(sibs[k]) {
                                                res = true;
                                            }
                                        }
                                        let mut k = pos + 1;
                                        while k < sibs.len() && !is_brk(sibs[k]) {
                                            if texty(sibs[k]) {
                                                res = true;
                                            }
                                            k += 1;
                                        }
                                        // keep climbing: an enclosing line may be mixed as well
                                    }
                                    _ => {}
                                }
                                cur = flat[ci].parent_idx;
                            }
                            res
                        };
                        add(if !behind_something || suppressed { "R31s" } else { "R31" });
                        // both inner edges tight (`[- t<nl><nl>        o<nl><nl>c]`): the item stays behind the
                        // bracket, and its continuation lines -- deeper than the marker in the source -- are
                        // re-indented to one unit, which is *left* of the marker: they leave the item, for
                        // every unit smaller than the text before the marker
                        let tight_left = f.node.children().next().is_some_and(|c| c.kind() != K::Space);
                        let tight_right = f.node.children().last().is_some_and(|c| !matches!(c.kind(), K::Space | K::Parbreak));
                        // ... and only when every line break of the body is a paragraph break: typstyle's
                        // "is this body multi-line" attribute looks at Space tokens only, so such a body counts
                        // as single-line and the bracket is not broken (with a plain line break somewhere the
                        // item moves to its own line and all is well -- seeded change C02-2 lives there)
                        let plain_break = syn::any_node(f.node, &mut |x| {
                            (x.kind() == K::Space && syn::has_nl(x.text())) || (x.kind() == K::BlockComment && syn::has_nl(x.text()))
                        });
                        if tight_left && tight_right && !plain_break && first.is_some_and(|c| syn::has_nl(&syn::text_of(c))) {
                            add("R31s");
                        }
                    }
                }
                // R30: list / enum / term items inside strong or emphasis: the edge blanks of the
                // body are dropped or turned into line breaks inconsistently (`* #[]<nl>2. x<nl>*`
                // loses its leading blank).
                if f.parent != Some(K::ContentBlock)
                    && f.node.children().any(|c| matches!(c.kind(), K::ListItem | K::EnumItem | K::TermItem))
                {
                    add("R30");
                }
                // R4: a comment at the inner edge of the body (first or last thing besides blanks):
                // blanks are added or moved (`a#[/* c */]b` renders "a b"; `[#[ /**/]` -> `[#[`<nl>)
                {
                    let sig: Vec<&SyntaxNode> = f.node.children().filter(|c| c.kind() != K::Space).collect();
                    if sig.first().is_some_and(|c| syn::is_comment(c.kind())) || sig.last().is_some_and(|c| syn::is_comment(c.kind())) {
                        add("R4");
                    }
                }
                // R35: a content block with a blank at one inner edge only whose embedded code has to
                // be broken: the next pass turns the blank into a line break (`- #a.x[ #grid(..)].x`).
                if f.parent == Some(K::ContentBlock) {
                    let first_sp = f.node.children().next().is_some_and(|c| c.kind() == K::Space && !syn::has_nl(c.text()));
                    let last_sp = f.node.children().last().is_some_and(|c| c.kind() == K::Space && !syn::has_nl(c.text()));
                    let single_line = !f.node.children().any(|c| c.kind() == K::Parbreak || (c.kind() == K::Space && syn::has_nl(c.text())));
                    // (also inside a heading / item that is a child of the body: `[= #(long) ]`)
                    let embeds = f.node.children().any(|c| {
                        matches!(c.kind(), K::Hash | K::Equation | K::Ref)
                            || (matches!(c.kind(), K::Heading | K::ListItem | K::EnumItem | K::TermItem)
                                && syn::any_node(c, &mut |x| matches!(x.kind(), K::Hash | K::Equation | K::Ref)))
                    });
                    // asymmetric edge blanks, or embedded code that cannot stay on one line
                    let forced = syn::has_nl(&syn::text_of(f.node))
                        || syn::any_node(f.node, &mut |x| {
                            x.kind() == K::Code && x.children().filter(|e| e.cast::<syn::ast::Expr>().is_some()).count() >= 2
                        });
                    if embeds && single_line && ((first_sp != last_sp) || ((first_sp || last_sp) && forced)) {
                        add("R35");
                    }
                    // edges of different kinds, one of them a plain blank: `#[#[ n<nl><nl>..]]`, `#e[<nl><nl>#d(..) ][]`
                    let class = |c: Option<&SyntaxNode>| -> u8 {
                        match c {
                            Some(c) if c.kind() == K::Parbreak || (c.kind() == K::Space && syn::has_nl(c.text())) => 2,
                            Some(c) if c.kind() == K::Space => 1,
                            _ => 0,
                        }
                    };
                    let (a, b) = (class(f.node.children().next()), class(f.node.children().last()));
                    if a != b && !single_line && (a == 1 || b == 1 || embeds) {
                        add("R35");
                    }
                    // a multi-line body with a plain blank at an inner edge that holds an item: on a text
                    // line the leading blank is dropped, the trailing one becomes a line break
                    if !single_line && (a == 1 || b == 1) && f.node.children().any(|c| matches!(c.kind(), K::ListItem | K::EnumItem | K::TermItem)) {
                        add("R35");
                    }
                    // a multi-line body that ends with a list item directly before the bracket
                    let last_sig = f.node.children().filter(|c| c.kind() != K::Space).last();
                    if !single_line && b != 2 && last_sig.is_some_and(|c| matches!(c.kind(), K::ListItem | K::EnumItem | K::TermItem)) {
                        add("R35");
                    }
                }
                // R18 (trailing form): a marker-like word alone on the last line directly before the
                // closing delimiter
                {
                    let kids: Vec<&SyntaxNode> = f.node.children().collect();
                    if let Some(last) = kids.last() {
                        if last.kind() == K::Text {
                            let w = last.text().as_str();
                            let marker = w == "-" || w == "+" || (w.len() > 1 && w.ends_with('.') && w[..w.len() - 1].chars().all(|ch| ch.is_ascii_digit()));
                            let at_line_start = kids.len() >= 2 && { let p = kids[kids.len() - 2]; p.kind() == K::Parbreak || (p.kind() == K::Space && syn::has_nl(p.text())) };
                            if marker && at_line_start {
                                add("R18");
                            }
                        }
                    }
                    // ... also inside the last list item of the body (`#[- o<nl>   0.]`)
                    if let Some(item) = kids.iter().rev().find(|c| c.kind() != K::Space).filter(|c| matches!(c.kind(), K::ListItem | K::EnumItem | K::TermItem)) {
                        let txt = syn::text_of(item);
                        let last_line = txt.rsplit(syn::is_nl).next().unwrap_or("").trim_start();
                        let is_marker = |w: &str| w == "-" || w == "+" || (w.len() > 1 && w.ends_with('.') && w[..w.len() - 1].chars().all(|ch| ch.is_ascii_digit()));
                        let marker = is_marker(last_line);
                        if marker && syn::has_nl(&txt) && kids.last().is_some_and(|l| l.kind() != K::Space) {
                            add("R18");
                        }
                        // ... or as the last word of the item (`+ +]`: a nested marker once a line break follows)
                        let last_word = txt.rsplit(char::is_whitespace).next().unwrap_or("");
                        if is_marker(last_word) && txt.trim_start().len() > last_word.len() && kids.last().is_some_and(|l| l.kind() != K::Space) {
                            add("R18");
                        }
                    }
                }
                let mut kids = f.node.children();
                if kids.next().is_some_and(|c| c.kind() == K::Space) {
                    // first thing after the edge blank (skipping comments and blanks)
                    let first = f.node.children().find(|c| c.kind() != K::Space && !syn::is_comment(c.kind()));
                    if let Some(c) = first {
                        if c.kind() == K::Text {
                            let w = c.text().split(' ').next().unwrap_or("");
                            let marker = w == "-" || w == "+" || w == "/" || (!w.is_empty() && w.chars().all(|ch| ch == '='))
                                || (w.len() > 1 && w.ends_with('.') && w[..w.len() - 1].chars().all(|ch| ch.is_ascii_digit()));
                            if marker {
                                add("R18");
                            }
                        }
                    }
                }
            }
            // R71: a closure written without parentheses as an operand of a binary expression
            K::Closure if f.parent == Some(K::Binary) => add("R71"),
            // R69: a statement embedded in an equation
            K::LetBinding | K::SetRule | K::ShowRule | K::ModuleImport | K::ModuleInclude
                if in_math[i] && matches!(f.parent, Some(K::Math | K::MathDelimited | K::MathAttach | K::MathFrac | K::MathRoot | K::Equation)) =>
            {
                add("R69")
            }
            // R65: a line comment inside a hash-embedded field access / call chain in math
            K::FieldAccess | K::FuncCall
                if in_math[i]
                    && matches!(f.parent, Some(K::Math | K::MathDelimited | K::MathAttach | K::MathFrac | K::MathRoot | K::Equation))
                    && syn::any_node(f.node, &mut |x| x.kind() == K::LineComment)
                    && syn::any_node(f.node, &mut |x| x.kind() == K::FieldAccess) =>
            {
                add("R65")
            }
            // R23: blanks around `_` in math are dropped; after embedded code the underscore then
            // becomes part of the identifier (`$#n _(x)$` -> `$#n_(x)$`, a call of `n_`).
            K::MathAttach => {
                let kids: Vec<&SyntaxNode> = f.node.children().collect();
                // embedded code anywhere before a spaced underscore (base or superscript)
                let hit = (1..kids.len()).any(|i| {
                    kids[i].kind() == K::Underscore
                        && kids[i - 1].kind() == K::Space
                        && kids[..i - 1].iter().any(|b| b.kind() == K::Hash || syn::any_node(b, &mut |x| x.kind() == K::Hash))
                });
                // ... or the base is a dot right behind embedded code (`#(). _y` -> `#()._y`, a field access)
                let dot_base = kids.first().is_some_and(|b| b.text() == ".") && kids.windows(2).any(|w| w[0].kind() == K::Space && w[1].kind() == K::Underscore);
                if hit || dot_base {
                    add("R23");
                }
            }
            _ => {}
        }
        let _ = i;
    }
    v
}

/// combining marks (the blocks that matter in practice)
fn is_combining(c: char) -> bool {
    matches!(c as u32, 0x300..=0x36F | 0x483..=0x489 | 0x591..=0x5BD | 0x610..=0x61A | 0x64B..=0x65F | 0x1AB0..=0x1AFF | 0x1DC0..=0x1DFF | 0x20D0..=0x20FF | 0xFE00..=0xFE0F | 0xFE20..=0xFE2F | 0x200D)
}

fn ends_line_with_blank(text: &str) -> bool {
    // a blank (any Unicode whitespace, incl. CR of a CRLF pair) directly before a line feed inside a token
    let cs: Vec<char> = text.chars().collect();
    for i in 1..cs.len() {
        if cs[i] == '\n' && cs[i - 1].is_whitespace() && cs[i - 1] != '\n' {
            return true;
        }
    }
    false
}
