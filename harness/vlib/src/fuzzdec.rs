//! Decoding of libFuzzer inputs into cases (shared by the fuzz targets and by the supervisor, which
//! turns a crash artefact back into a case).
//!
//! `src` target: 3 config bytes (+ 4 range bytes for C13), the rest is the source text (UTF-8).
//! `tape` target: the bytes are the tape of the property's own `decode` (structure-aware).

use crate::api::Cfg;
use crate::gen::config::HUGE;
use crate::props::SrcCase;
use crate::props2::TotCase;

const WIDTHS: [usize; 16] = [80, 0, 1, 2, 5, 10, 20, 30, 40, 60, 100, 120, 200, 400, 1000, HUGE];

pub fn cfg_from(b: &[u8], extreme: bool) -> Cfg {
    let b0 = b.first().copied().unwrap_or(0);
    let b1 = b.get(1).copied().unwrap_or(1);
    let b2 = b.get(2).copied().unwrap_or(0);
    let width = if b0 < 128 { WIDTHS[(b0 as usize) % WIDTHS.len()] } else { (b0 - 128) as usize };
    let tab = if extreme { (b1 % 65) as usize } else { 1 + (b1 % 8) as usize };
    let width = if extreme && b2 & 2 != 0 { usize::MAX / 2 } else { width };
    let blank = [2, 2, 2, 2, 0, 1, 3, HUGE][((b2 >> 2) & 7) as usize];
    Cfg { width, tab, reorder: b2 & 1 != 0, blank }
}

fn floor_cb(s: &str, mut i: usize) -> usize {
    i = i.min(s.len());
    while !s.is_char_boundary(i) {
        i -= 1;
    }
    i
}

/// `src` target input -> source case (None: not UTF-8 / too short).
pub fn src_case(data: &[u8], with_range: bool) -> Option<SrcCase> {
    let head = if with_range { 7 } else { 3 };
    if data.len() < head {
        return None;
    }
    let src = std::str::from_utf8(&data[head..]).ok()?.to_string();
    let cfg = cfg_from(data, false);
    let range = if with_range {
        let a = u16::from_le_bytes([data[3], data[4]]) as usize;
        let b = u16::from_le_bytes([data[5], data[6]]) as usize;
        let n = src.len();
        let start = floor_cb(&src, (a * (n + 1)) >> 16);
        let span = n - start + 65;
        let mut end = start + ((b * span) >> 16);
        if end <= n {
            end = floor_cb(&src, end).max(start);
        }
        Some((start, end))
    } else {
        None
    };
    Some(SrcCase { src, cfg, range, origin: "fuzz:src".into() })
}

pub fn tot_case(data: &[u8]) -> Option<TotCase> {
    if data.len() < 3 {
        return None;
    }
    let src = std::str::from_utf8(&data[3..]).ok()?.to_string();
    Some(TotCase { src, cfg: cfg_from(data, true), origin: "fuzz:src".into() })
}

/// The inverse, for seeding the corpus of the `src` target from plain text.
pub fn encode_src(text: &str, width_byte: u8, tab_byte: u8, flags: u8, with_range: bool, range: (u16, u16)) -> Vec<u8> {
    let mut v = vec![width_byte, tab_byte, flags];
    if with_range {
        v.extend_from_slice(&range.0.to_le_bytes());
        v.extend_from_slice(&range.1.to_le_bytes());
    }
    v.extend_from_slice(text.as_bytes());
    v
}
