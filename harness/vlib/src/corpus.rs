//! G0: the vendored fixture corpus (inputs only) and the paragraph-level snippets cut from it.

use std::path::{Path, PathBuf};

use crate::syn::{self, K};

pub struct Item {
    pub name: String,
    pub text: String,
    pub wf: bool,
    /// true for whole files, false for snippets
    pub whole: bool,
}

pub struct Corpus {
    pub items: Vec<Item>,
    /// indices of well-formed items
    pub wf: Vec<usize>,
    /// indices of well-formed whole files
    pub wf_files: Vec<usize>,
    /// indices of well-formed snippets (<= 4 kB)
    pub wf_snips: Vec<usize>,
}

fn walk(dir: &Path, out: &mut Vec<PathBuf>) {
    let Ok(rd) = std::fs::read_dir(dir) else { return };
    for e in rd.flatten() {
        let p = e.path();
        if p.is_dir() {
            walk(&p, out);
        } else if p.extension().is_some_and(|x| x == "typ") {
            out.push(p);
        }
    }
}

impl Corpus {
    pub fn load(dir: &Path) -> Corpus {
        let mut files = vec![];
        walk(dir, &mut files);
        files.sort();
        let mut items = vec![];
        for f in &files {
            let Ok(text) = std::fs::read_to_string(f) else { continue };
            let name = f.strip_prefix(dir).unwrap_or(f).display().to_string();
            let root = syn::parse(&text);
            let wf = !root.erroneous();
            // snippets: cut at top-level paragraph breaks
            let mut snips: Vec<String> = vec![];
            if wf {
                let mut cur = String::new();
                for c in root.children() {
                    if c.kind() == K::Parbreak {
                        if !cur.trim().is_empty() {
                            snips.push(std::mem::take(&mut cur));
                        }
                        cur.clear();
                    } else {
                        cur.push_str(&syn::text_of(c));
                    }
                }
                if !cur.trim().is_empty() {
                    snips.push(cur);
                }
            }
            items.push(Item { name: name.clone(), text, wf, whole: true });
            if snips.len() > 1 {
                for (i, s) in snips.into_iter().enumerate() {
                    if s.len() > 4096 {
                        continue;
                    }
                    let swf = syn::wf(&s);
                    items.push(Item { name: format!("{name}#{i}"), text: s, wf: swf, whole: false });
                }
            }
        }
        let wf: Vec<usize> = (0..items.len()).filter(|&i| items[i].wf).collect();
        let wf_files = wf.iter().copied().filter(|&i| items[i].whole).collect();
        let wf_snips = wf.iter().copied().filter(|&i| !items[i].whole).collect();
        Corpus { items, wf, wf_files, wf_snips }
    }
}
