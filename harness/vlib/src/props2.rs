//! C05 (totality) and C18 (linear work): library-only properties with their own case types.

use serde::{Deserialize, Serialize};
use serde_json::{json, Value};

use crate::api::{Cfg, Fmt};
use crate::engine::{Env, Prop, Stats, Tier, Verdict};
use crate::gen::{self, config, grammar::Focus, nest};
use crate::reduce;
use crate::syn;
use crate::tape::Tape;

// ------------------------------------------------------------------------------------------ C05

#[derive(Clone, Debug, Serialize, Deserialize)]
pub struct TotCase {
    pub src: String,
    pub cfg: Cfg,
    #[serde(default)]
    pub origin: String,
}

pub struct C05;

fn extreme_cfg(t: &mut Tape) -> Cfg {
    let width = match t.weighted(&[6, 3, 2, 2, 1, 1]) {
        0 => config::width(t),
        1 => 0,
        2 => 1,
        3 => t.range(0, 400),
        4 => usize::MAX / 2,
        _ => (t.u64() as usize) % (usize::MAX / 2),
    };
    let tab = match t.weighted(&[6, 2, 2]) {
        0 => config::tab(t),
        1 => 0,
        _ => t.range(0, 64),
    };
    let blank = match t.weighted(&[6, 2, 1, 1]) {
        0 => 2,
        1 => config::blank(t),
        2 => usize::MAX,
        _ => t.u64() as usize,
    };
    Cfg { width, tab, reorder: t.chance(40), blank }
}

/// deterministic part: every nesting family at a fixed depth, formatted on an 8 MiB stack
const NEST_DEPTH_QUICK: usize = 1000;

impl Prop for C05 {
    type Case = TotCase;

    fn id(&self) -> &'static str {
        "C05"
    }

    fn rule(&self) -> String {
        format!("Cases = all UTF-8: G3 random strings over a Typst-heavy alphabet incl. every Unicode newline/blank, NUL and arbitrary scalars; damaged corpus and G1 text (delete/insert/duplicate/transpose/unbalance/truncate); intact G0/G1/G2 text; configs with max_width in [0, usize::MAX/2] and tab_spaces in [0, 64]; deterministic part: every corpus item (well-formed or not) at extreme configs and each of the {} nesting families at depth {} (quick) on an 8 MiB stack. Oracle: (a) no panic (catch_unwind) and no abort/stack overflow (worker process dies => the in-flight case is the counterexample); (b) Err iff the parser reports errors; (c) format_with_width(s,w) == s if erroneous else == fmt(s, default config with width w); (d) a per-case watchdog. Non-trivial: erroneous input within a few edits of a well-formed one, or a well-formed input with a non-LF newline, a non-ASCII blank, or nesting depth >= 50.", nest::FAMILIES.len(), NEST_DEPTH_QUICK)
    }

    fn assumptions(&self) -> Vec<String> {
        vec![
            "formatting runs on a thread with an 8 MiB stack (the CLI's main-thread budget)".into(),
            "release build with debug-assertions and overflow-checks on, so debug_assert! and arithmetic overflow panic as in test builds".into(),
            "a watchdog hit is re-run alone before it is believed; load-induced slowness is never reported".into(),
        ]
    }

    fn sweep_len(&self, env: &Env) -> usize {
        env.corpus.items.len() * 4 + nest::FAMILIES.len() * 2
    }

    fn sweep_case(&self, i: usize, env: &Env) -> Option<TotCase> {
        let n = env.corpus.items.len() * 4;
        if i < n {
            let it = &env.corpus.items[i / 4];
            let cfg = match i % 4 {
                0 => Cfg { width: 0, tab: 0, reorder: true, blank: 2 },
                1 => Cfg { width: usize::MAX / 2, tab: 64, reorder: false, blank: 2 },
                2 => Cfg { width: 1, tab: 17, reorder: true, blank: 2 },
                _ => Cfg { width: 37, tab: 1, reorder: false, blank: 2 },
            };
            Some(TotCase { src: it.text.clone(), cfg, origin: "G0".into() })
        } else {
            let j = i - n;
            let fam = nest::FAMILIES[j / 2];
            let depth = match env.tier {
                Tier::Quick => NEST_DEPTH_QUICK,
                Tier::Thorough => 2000,
            };
            // markup-nesting families (lists) are bounded by indentation growth, keep them smaller
            let depth = if matches!(fam, "list" | "enum" | "term") { depth.min(150) } else { depth };
            let cfg = if j % 2 == 0 { Cfg { width: 80, tab: 2, reorder: false, blank: 2 } } else { Cfg { width: 0, tab: 4, reorder: false, blank: 2 } };
            Some(TotCase { src: nest::same(fam, depth), cfg, origin: format!("G4:{fam}x{depth}") })
        }
    }

    fn gen_cases(&self, tier: Tier) -> u64 {
        match tier {
            Tier::Quick => 300_000,
            Tier::Thorough => 6_000_000,
        }
    }

    fn decode(&self, t: &mut Tape, env: &Env, _st: &mut Stats) -> Option<TotCase> {
        let (src, origin) = match t.weighted(&[6, 3, 1]) {
            0 => {
                let (s, o) = gen::bytes::any_text(t, env.corpus);
                (s, o.to_string())
            }
            1 => {
                let focus = t.pick(&[Focus::Any, Focus::Comments, Focus::Math, Focus::Code]);
                let (s, o) = gen::source(t, env.corpus, gen::DEFAULT_MIX, focus);
                (s, o.to_string())
            }
            _ => {
                let depth = t.range(20, 300);
                let (s, _) = nest::mixed(t, depth);
                (s, format!("G4:mixed x{depth}"))
            }
        };
        if src.len() > 64 * 1024 {
            return None;
        }
        // rarely a byte order mark in front (a refusal must hand back exactly the input)
        let src = if t.chance(10) { format!("{}{src}", '\u{feff}') } else { src };
        Some(TotCase { src, cfg: extreme_cfg(t), origin })
    }

    fn check(&self, c: &TotCase, env: &Env, st: &mut Stats) -> Verdict {
        let t0 = std::time::Instant::now();
        let root = syn::parse(&c.src);
        let err = root.erroneous();
        st.label(&format!("origin:{}", c.origin.split(':').next().unwrap_or("")));
        st.label(if err { "input:erroneous" } else { "input:well-formed" });
        let r = env.f.format(&c.src, &c.cfg);
        match &r {
            Fmt::Panic(m) => {
                return Verdict::fail(
                    format!("C05:panic:{}", panic_sig(m)),
                    format!("format_content panicked: {m}"),
                )
            }
            Fmt::Refused if !err => {
                return Verdict::fail("C05:refused-well-formed", "the parser reports no error but formatting was refused")
            }
            Fmt::Ok(_) if err => {
                return Verdict::fail("C05:formatted-erroneous", "the parser reports syntax errors but formatting returned text")
            }
            _ => {}
        }
        // the convenience entry point (width only, default indent)
        let w = c.cfg.width;
        match env.f.format_with_width(&c.src, w) {
            Err(m) => {
                return Verdict::fail(format!("C05:panic-wrapper:{}", panic_sig(&m)), format!("format_with_width panicked: {m}"))
            }
            Ok(s) => {
                if err {
                    if s != c.src {
                        return Verdict::fail("C05:wrapper-changed-erroneous", "format_with_width did not return the erroneous input unchanged");
                    }
                } else {
                    let expect = env.f.format(&c.src, &Cfg { width: w, tab: 2, reorder: false, blank: 2 });
                    if expect.ok() != Some(s.as_str()) {
                        return Verdict::fail("C05:wrapper-differs", "format_with_width(s, w) differs from format_content with the default config at width w");
                    }
                }
            }
        }
        let dt = t0.elapsed().as_secs_f64();
        st.max_extra("max_case_seconds", dt);
        if !c.src.is_empty() {
            st.max_extra("max_us_per_byte", dt * 1e6 / c.src.len() as f64);
        }
        let depth = syn::max_depth(&root);
        st.label_if(depth >= 50, "nesting>=50");
        let odd_nl = c.src.chars().any(|ch| (syn::is_nl(ch) && ch != '\n') || (ch.is_whitespace() && !ch.is_ascii()));
        st.label_if(odd_nl, "non-LF-newline-or-non-ASCII-blank");
        let near_valid = err && c.origin.contains("damaged");
        st.label_if(c.cfg.width > 1 << 30, "width>2^30");
        st.label_if(c.cfg.tab == 0, "tab:0");
        st.label_if(c.cfg.tab > 8, "tab>8");
        Verdict::Pass { nontrivial: near_valid || (!err && (odd_nl || depth >= 50)) }
    }

    fn reduce(&self, c: &TotCase, _env: &Env, fails: &mut dyn FnMut(&TotCase) -> bool) -> TotCase {
        let mut best = c.clone();
        for (w, t) in [(80, 2), (40, 2), (0, 2), (c.cfg.width, 2), (80, c.cfg.tab)] {
            let cand = TotCase { cfg: Cfg { width: w, tab: t, reorder: false, blank: 2 }, ..best.clone() };
            if fails(&cand) {
                best = cand;
                break;
            }
        }
        let proto = best.clone();
        best.src = reduce::reduce_text(&best.src, &mut |s: &str| fails(&TotCase { src: s.to_string(), ..proto.clone() }));
        best
    }

    fn sample(&self, c: &TotCase) -> Value {
        json!({"src": syn::clip(&c.src, 300), "width": c.cfg.width, "tab": c.cfg.tab, "reorder": c.cfg.reorder, "origin": c.origin})
    }
}

pub fn panic_sig(m: &str) -> String {
    // location-free, number-free prefix of the message
    let m: String = m.chars().map(|c| if c.is_ascii_digit() { '#' } else { c }).collect();
    m.split_whitespace().take(6).collect::<Vec<_>>().join("-")
}

// ------------------------------------------------------------------------------------------ C18

#[derive(Clone, Debug, Serialize, Deserialize)]
pub struct WorkCase {
    pub src: String,
    pub cfg: Cfg,
    /// nesting depth of the family (0 for corpus / grammar cases)
    #[serde(default)]
    pub depth: usize,
    #[serde(default)]
    pub family: String,
}

pub struct C18;

pub const K_LINEAR: u64 = 2;
pub const K0: u64 = 8;
const WIDTHS18: [usize; 4] = [0, 20, 80, config::HUGE];

impl C18 {
    fn depths(tier: Tier) -> Vec<usize> {
        match tier {
            Tier::Quick => vec![1, 2, 3, 4, 6, 8, 12, 16, 24, 32],
            Tier::Thorough => (1..=40).chain([50, 64, 80, 100]).collect(),
        }
    }
}

impl Prop for C18 {
    type Case = WorkCase;

    fn id(&self) -> &'static str {
        "C18"
    }

    fn rule(&self) -> String {
        format!("Cases = G4 nesting families ({} wrappers: calls, chains, arrays, dicts, closures, blocks, content, conditionals, math delimiters/calls/attachments, lists, tables, ...) nested d times (same wrapper: deterministic sweep over depths and widths {{0,20,80,2^20}}; random mixes of wrappers: generated), plus corpus files and G1 documents for the small-constant clause. Oracle (deterministic, no timing): conversions counted by the --cfg typstyle_verif hook <= {K_LINEAR} * syntax nodes + {K0}. Non-trivial: depth >= 8 and the output has more lines than the input (a broken group).", nest::FAMILIES.len())
    }

    fn assumptions(&self) -> Vec<String> {
        vec![
            "the hook counts calls of convert_expr / convert_pattern / convert_markup_impl / convert_math; work inside the external `pretty` renderer is not counted (typstyle uses no union/backtracking there)".into(),
            "wall time per node is recorded as a secondary signal only and never decides".into(),
        ]
    }

    fn sweep_len(&self, env: &Env) -> usize {
        nest::FAMILIES.len() * Self::depths(env.tier).len() * WIDTHS18.len() + env.corpus.wf_files.len() * 2
    }

    fn sweep_case(&self, i: usize, env: &Env) -> Option<WorkCase> {
        let ds = Self::depths(env.tier);
        let per = ds.len() * WIDTHS18.len();
        let n = nest::FAMILIES.len() * per;
        if i < n {
            let fam = nest::FAMILIES[i / per];
            let r = i % per;
            let depth = ds[r / WIDTHS18.len()];
            let width = WIDTHS18[r % WIDTHS18.len()];
            Some(WorkCase { src: nest::same(fam, depth), cfg: Cfg { width, tab: 2, reorder: false, blank: 2 }, depth, family: fam.to_string() })
        } else {
            let j = i - n;
            let it = &env.corpus.items[env.corpus.wf_files[j / 2]];
            let width = if j % 2 == 0 { 40 } else { 0 };
            Some(WorkCase { src: it.text.clone(), cfg: Cfg { width, tab: 2, reorder: false, blank: 2 }, depth: 0, family: "G0".into() })
        }
    }

    fn gen_cases(&self, tier: Tier) -> u64 {
        match tier {
            Tier::Quick => 1_000_000,
            Tier::Thorough => 8_000_000,
        }
    }

    fn decode(&self, t: &mut Tape, env: &Env, _st: &mut Stats) -> Option<WorkCase> {
        let width = t.pick(&[0usize, 20, 80, config::HUGE, 40, 10]);
        let cfg = Cfg { width, tab: t.pick(&[2usize, 4, 1]), reorder: false, blank: 2 };
        if t.chance(180) {
            let depth = match t.weighted(&[4, 4, 2]) {
                0 => t.range(1, 8),
                1 => t.range(8, 24),
                _ => t.range(24, 48),
            };
            let (src, kinds) = nest::mixed(t, depth);
            if !syn::wf(&src) {
                return None;
            }
            let fam = format!("mixed:{}", kinds.iter().take(3).cloned().collect::<Vec<_>>().join("/"));
            Some(WorkCase { src, cfg, depth, family: fam })
        } else {
            let focus = t.pick(&[Focus::Code, Focus::Any, Focus::Math, Focus::Comments]);
            let (src, o) = gen::source(t, env.corpus, gen::Mix { snippet: 2, file: 1, mutant: 4, grammar: 8 }, focus);
            if src.len() > 64 * 1024 || !syn::wf(&src) {
                return None;
            }
            Some(WorkCase { src, cfg, depth: 0, family: o.to_string() })
        }
    }

    fn check(&self, c: &WorkCase, env: &Env, st: &mut Stats) -> Verdict {
        let root = syn::parse(&c.src);
        if root.erroneous() {
            return Verdict::skip("input-not-well-formed");
        }
        let nodes = syn::count_nodes(&root) as u64;
        let t0 = std::time::Instant::now();
        let (r, conv) = env.f.format_counted(&c.src, &c.cfg);
        let dt = t0.elapsed().as_secs_f64();
        let out = match r {
            Fmt::Ok(o) => o,
            Fmt::Refused => return Verdict::skip("deferred_to_C05:refused-well-formed-input"),
            Fmt::Panic(_) => return Verdict::skip("deferred_to_C05:panic"),
        };
        let fam = c.family.split(':').next().unwrap_or("").to_string();
        st.label(&format!("family:{fam}"));
        st.label(match c.depth {
            0 => "depth:0(flat corpus/grammar)",
            1..=7 => "depth:1-7",
            8..=23 => "depth:8-23",
            _ => "depth:>=24",
        });
        let ratio = conv as f64 / nodes as f64;
        st.max_extra("max_conversions_per_node", ratio);
        st.max_extra("max_us_per_node", dt * 1e6 / nodes as f64);
        st.max_extra("max_output_bytes_per_input_byte", out.len() as f64 / c.src.len().max(1) as f64);
        if conv > K_LINEAR * nodes + K0 {
            return Verdict::fail(
                format!("C18:superlinear:{fam}"),
                format!(
                    "{conv} node conversions for {nodes} syntax nodes (ratio {ratio:.2}, bound {K_LINEAR}*n+{K0}); family {} depth {}",
                    c.family, c.depth
                ),
            );
        }
        Verdict::Pass { nontrivial: c.depth >= 8 && out.lines().count() > c.src.lines().count() }
    }

    fn reduce(&self, c: &WorkCase, _env: &Env, fails: &mut dyn FnMut(&WorkCase) -> bool) -> WorkCase {
        // smaller depth of the same family first
        let mut best = c.clone();
        if nest::FAMILIES.contains(&c.family.as_str()) {
            for d in 1..c.depth {
                let cand = WorkCase { src: nest::same(&c.family, d), depth: d, ..c.clone() };
                if fails(&cand) {
                    return cand;
                }
            }
            return best;
        }
        let proto = best.clone();
        best.src = reduce::reduce_text(&best.src, &mut |s: &str| syn::wf(s) && fails(&WorkCase { src: s.to_string(), ..proto.clone() }));
        best
    }

    fn sample(&self, c: &WorkCase) -> Value {
        json!({"src": syn::clip(&c.src, 300), "width": c.cfg.width, "family": c.family, "depth": c.depth})
    }
}
