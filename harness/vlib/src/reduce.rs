//! Source-level reduction of a failing text: hierarchical deletion over the syntax tree,
//! then lines, then characters. The predicate decides "still fails the same way" (and
//! includes any well-formedness requirement).

use crate::syn;

pub fn reduce_text(src: &str, keep: &mut dyn FnMut(&str) -> bool) -> String {
    let mut cur = src.to_string();
    let mut rounds = 0;
    loop {
        rounds += 1;
        let before = cur.len();
        cur = tree_pass(&cur, keep);
        cur = line_pass(&cur, keep);
        if cur.len() <= 200 {
            cur = char_pass(&cur, keep);
        }
        if cur.len() >= before || rounds >= 6 {
            break;
        }
    }
    cur
}

/// Try to delete nodes (largest first), or replace a node by one of its children.
fn tree_pass(src: &str, keep: &mut dyn FnMut(&str) -> bool) -> String {
    let mut cur = src.to_string();
    let mut attempts = 0;
    'outer: loop {
        let root = syn::parse(&cur);
        let flat = syn::flatten(&root);
        // candidates: (start, end, replacement)
        let mut cands: Vec<(usize, usize, String)> = vec![];
        for (i, f) in flat.iter().enumerate() {
            if i == 0 || f.end == f.start {
                continue;
            }
            cands.push((f.start, f.end, String::new()));
            // replace node by a child
            let mut o = f.start;
            for c in f.node.children() {
                let (cs, ce) = (o, o + c.len());
                o = ce;
                if ce - cs > 0 && ce - cs < f.end - f.start && !syn::is_leaf(c) {
                    cands.push((f.start, f.end, cur[cs..ce].to_string()));
                }
            }
        }
        // largest removal first
        cands.sort_by_key(|(s, e, r)| std::cmp::Reverse((e - s) as isize - r.len() as isize));
        for (s, e, r) in cands {
            attempts += 1;
            if attempts > 1500 {
                break 'outer;
            }
            let mut t = String::with_capacity(cur.len());
            t.push_str(&cur[..s]);
            t.push_str(&r);
            t.push_str(&cur[e..]);
            if t.len() < cur.len() && keep(&t) {
                cur = t;
                continue 'outer;
            }
        }
        break;
    }
    cur
}

fn line_pass(src: &str, keep: &mut dyn FnMut(&str) -> bool) -> String {
    let mut lines: Vec<&str> = src.split_inclusive('\n').collect();
    let mut chunk = (lines.len() / 2).max(1);
    let mut attempts = 0;
    while chunk >= 1 {
        let mut i = 0;
        let mut progressed = false;
        while i < lines.len() {
            attempts += 1;
            if attempts > 600 {
                return lines.concat();
            }
            let end = (i + chunk).min(lines.len());
            let mut cand: Vec<&str> = Vec::with_capacity(lines.len());
            cand.extend_from_slice(&lines[..i]);
            cand.extend_from_slice(&lines[end..]);
            let t = cand.concat();
            if t.len() < src.len() && keep(&t) {
                lines = cand;
                progressed = true;
            } else {
                i += chunk;
            }
        }
        if chunk == 1 && !progressed {
            break;
        }
        if chunk > 1 {
            chunk /= 2;
        } else if !progressed {
            break;
        }
    }
    lines.concat()
}

fn char_pass(src: &str, keep: &mut dyn FnMut(&str) -> bool) -> String {
    let mut cur: Vec<char> = src.chars().collect();
    let mut attempts = 0;
    let mut progressed = true;
    while progressed {
        progressed = false;
        let mut i = 0;
        while i < cur.len() {
            attempts += 1;
            if attempts > 800 {
                return cur.into_iter().collect();
            }
            let mut cand = cur.clone();
            cand.remove(i);
            let t: String = cand.iter().collect();
            if keep(&t) {
                cur = cand;
                progressed = true;
            } else {
                i += 1;
            }
        }
    }
    cur.into_iter().collect()
}
