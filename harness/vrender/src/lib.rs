pub fn hello() {}
