//! Minimal in-memory typst World: one main file, embedded fonts, fixed date; compile + rasterise.

use std::hash::{Hash, Hasher};
use std::sync::OnceLock;

use typst::diag::{FileError, FileResult};
use typst::foundations::{Bytes, Datetime};
use typst::layout::PagedDocument;
use typst::syntax::{FileId, Source, VirtualPath};
use typst::text::{Font, FontBook};
use typst::utils::LazyHash;
use typst::{Library, World};

struct Shared {
    library: LazyHash<Library>,
    book: LazyHash<FontBook>,
    fonts: Vec<Font>,
}

static SHARED: OnceLock<Shared> = OnceLock::new();

fn shared() -> &'static Shared {
    SHARED.get_or_init(|| {
        let fonts: Vec<Font> = typst_assets::fonts().flat_map(|d| Font::iter(Bytes::new(d))).collect();
        Shared { library: LazyHash::new(Library::default()), book: LazyHash::new(FontBook::from_fonts(&fonts)), fonts }
    })
}

struct W {
    main: Source,
}

impl W {
    fn new(text: &str) -> Self {
        W { main: Source::new(FileId::new(None, VirtualPath::new("/main.typ")), text.into()) }
    }
}

impl World for W {
    fn library(&self) -> &LazyHash<Library> {
        &shared().library
    }
    fn book(&self) -> &LazyHash<FontBook> {
        &shared().book
    }
    fn main(&self) -> FileId {
        self.main.id()
    }
    fn source(&self, id: FileId) -> FileResult<Source> {
        if id == self.main.id() {
            Ok(self.main.clone())
        } else {
            Err(FileError::NotFound(id.vpath().as_rootless_path().into()))
        }
    }
    fn file(&self, id: FileId) -> FileResult<Bytes> {
        Err(FileError::NotFound(id.vpath().as_rootless_path().into()))
    }
    fn font(&self, i: usize) -> Option<Font> {
        shared().fonts.get(i).cloned()
    }
    fn today(&self, _: Option<i64>) -> Option<Datetime> {
        Datetime::from_ymd(2024, 1, 1)
    }
}

#[derive(Debug, PartialEq, Eq, Clone)]
pub struct Rendered {
    /// hash of the pixmap of each page (with its dimensions)
    pub pages: Vec<u64>,
    /// some page is not blank
    pub non_blank: bool,
    /// title / authors / keywords of the document
    pub info: String,
}

/// Ok(rendered pages) or Err(diagnostic messages)
pub fn render(text: &str, scale: f32) -> Result<Rendered, Vec<String>> {
    let w = W::new(text);
    match typst::compile::<PagedDocument>(&w).output {
        Ok(doc) => {
            let mut pages = vec![];
            let mut non_blank = false;
            for p in &doc.pages {
                let pm = typst_render::render(p, scale);
                let mut h = std::collections::hash_map::DefaultHasher::new();
                pm.data().hash(&mut h);
                pm.width().hash(&mut h);
                pm.height().hash(&mut h);
                pages.push(h.finish());
                let d = pm.data();
                if !non_blank && d.chunks(4).any(|px| px != &d[0..4]) {
                    non_blank = true;
                }
            }
            let info = format!("{:?}|{:?}|{:?}", doc.info.title, doc.info.author, doc.info.keywords);
            Ok(Rendered { pages, non_blank, info })
        }
        Err(e) => Err(e.iter().map(|d| d.message.to_string()).collect()),
    }
}

/// Drop memoised results older than `max_age` compilations.
pub fn evict(max_age: usize) {
    comemo::evict(max_age);
}
