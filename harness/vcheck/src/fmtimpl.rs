//! The formatter under test, as seen through vlib's `Formatter` trait.

use std::cell::RefCell;
use std::panic::{catch_unwind, AssertUnwindSafe};

use typstyle_core::{Config, Typstyle};
use vlib::api::{Cfg, Fmt, Formatter, RangeFmt};

thread_local! {
    static LAST_PANIC: RefCell<String> = const { RefCell::new(String::new()) };
}

/// Silence the default hook (campaigns would print millions of lines) but keep the message.
pub fn install_panic_hook() {
    let verbose = std::env::var("VERIF_DEBUG").is_ok();
    let default = std::panic::take_hook();
    std::panic::set_hook(Box::new(move |info| {
        let loc = info.location().map(|l| format!("{}:{}", l.file().rsplit('/').next().unwrap_or(""), l.line())).unwrap_or_default();
        let msg = if let Some(s) = info.payload().downcast_ref::<&str>() {
            s.to_string()
        } else if let Some(s) = info.payload().downcast_ref::<String>() {
            s.clone()
        } else {
            "panic".to_string()
        };
        let in_typstyle = info.location().is_some_and(|l| {
            let f = l.file();
            f.contains("typstyle") || f.contains("/pretty-") || f.contains("typst-syntax")
        });
        LAST_PANIC.with(|p| *p.borrow_mut() = format!("{msg} [{loc}]"));
        if verbose || !in_typstyle {
            default(info);
        }
    }));
}

fn last_panic() -> String {
    LAST_PANIC.with(|p| p.borrow().clone())
}

/// Every public way of building a `Config` must mean the same configuration (a library user calls
/// the builder methods in any order): the path is varied as a pure function of the values.
pub fn to_config(cfg: &Cfg) -> Config {
    let (w, t) = (cfg.width, cfg.tab);
    let base = match (w ^ t.rotate_left(3) ^ (w >> 7)) % 4 {
        0 => Config { tab_spaces: t, max_width: w, ..Config::default() },
        1 => Config::new().with_width(w).with_tab_spaces(t),
        2 => Config::new().with_tab_spaces(t).with_width(w),
        _ => Config::default().with_tab_spaces(t).with_width(w).with_tab_spaces(t),
    };
    Config { reorder_import_items: cfg.reorder, blank_lines_upper_bound: cfg.blank, ..base }
}

pub struct Real {
    /// run each call on a fresh thread with this stack size (C05: the CLI's 8 MiB budget)
    pub stack: Option<usize>,
}

fn on_stack<T: Send>(stack: Option<usize>, f: impl FnOnce() -> T + Send) -> T {
    match stack {
        None => f(),
        Some(sz) => std::thread::scope(|s| {
            std::thread::Builder::new()
                .stack_size(sz)
                .spawn_scoped(s, f)
                .expect("spawn")
                .join()
                .expect("formatter thread join")
        }),
    }
}

impl Formatter for Real {
    fn format(&self, src: &str, cfg: &Cfg) -> Fmt {
        on_stack(self.stack, || {
            let r = catch_unwind(AssertUnwindSafe(|| Typstyle::new(to_config(cfg)).format_content(src)));
            match r {
                Ok(Ok(s)) => Fmt::Ok(s),
                Ok(Err(_)) => Fmt::Refused,
                Err(_) => Fmt::Panic(last_panic()),
            }
        })
    }

    fn format_range(&self, src: &str, start: usize, end: usize, cfg: &Cfg) -> RangeFmt {
        on_stack(self.stack, || {
            let r = catch_unwind(AssertUnwindSafe(|| {
                let source = typst_syntax::Source::detached(src);
                Typstyle::new(to_config(cfg)).format_source_range(&source, start..end)
            }));
            match r {
                Ok(Ok((r, t))) => RangeFmt::Ok { start: r.start, end: r.end, text: t },
                Ok(Err(_)) => RangeFmt::Refused,
                Err(_) => RangeFmt::Panic(last_panic()),
            }
        })
    }

    fn format_with_width(&self, src: &str, width: usize) -> Result<String, String> {
        on_stack(self.stack, || {
            catch_unwind(AssertUnwindSafe(|| typstyle_core::format_with_width(src, width))).map_err(|_| last_panic())
        })
    }

    fn format_counted(&self, src: &str, cfg: &Cfg) -> (Fmt, u64) {
        on_stack(self.stack, || {
            typstyle_core::verif::reset();
            let r = catch_unwind(AssertUnwindSafe(|| Typstyle::new(to_config(cfg)).format_content(src)));
            let n = typstyle_core::verif::get();
            let f = match r {
                Ok(Ok(s)) => Fmt::Ok(s),
                Ok(Err(_)) => Fmt::Refused,
                Err(_) => Fmt::Panic(last_panic()),
            };
            (f, n)
        })
    }
}
