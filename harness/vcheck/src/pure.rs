//! C17: formatting is a pure, deterministic function of text and configuration.
//!
//! A case is a job set (texts x configs, with near-duplicate texts whose syntax trees have the
//! same span numbers) plus a schedule. The reference result of every job comes from a fresh
//! process that formats nothing else; every result obtained in any history (repeated, interleaved,
//! concurrent on 2..16 threads, other processes with other environments) must be byte-identical.

use std::io::Write;
use std::process::{Command, Stdio};
use std::sync::{Arc, Barrier};

use serde::{Deserialize, Serialize};
use serde_json::{json, Value};
use vlib::api::{Cfg, Fmt};
use vlib::engine::{Env, Prop, Stats, Tier, Verdict};
use vlib::gen::{self, config, grammar::Focus};
use vlib::syn;
use vlib::tape::Tape;

#[derive(Clone, Debug, Serialize, Deserialize)]
pub struct Job {
    pub src: String,
    pub cfg: Cfg,
    /// go through the width-only convenience function `format_with_width` (tab 2, no reordering)
    #[serde(default)]
    pub wrapper: bool,
}

fn run_job(f: &dyn vlib::api::Formatter, j: &Job) -> Res {
    if j.wrapper {
        match f.format_with_width(&j.src, j.cfg.width) {
            Ok(s) => Res::Ok(s),
            Err(_) => Res::Panic,
        }
    } else {
        to_res(f.format(&j.src, &j.cfg))
    }
}

#[derive(Clone, Debug, Serialize, Deserialize)]
pub struct PureCase {
    pub jobs: Vec<Job>,
    /// sequential interleaving: indices into jobs
    pub sequence: Vec<usize>,
    /// per thread: indices into jobs
    pub threads: Vec<Vec<usize>>,
    pub rounds: usize,
    /// long-lived process: this many further calls alternating over the first jobs (a leak that
    /// only shows after tens of thousands of calls, e.g. an exhausted global id space)
    #[serde(default)]
    pub marathon: usize,
}

pub struct C17;

#[derive(Clone, Debug, PartialEq, Eq, Serialize, Deserialize)]
pub enum Res {
    Ok(String),
    Refused,
    Panic,
}

fn to_res(f: Fmt) -> Res {
    match f {
        Fmt::Ok(s) => Res::Ok(s),
        Fmt::Refused => Res::Refused,
        Fmt::Panic(_) => Res::Panic,
    }
}

/// `vcheck fmtone`: format one job read from stdin in this (fresh) process, print the result.
pub fn fmtone_main(f: &dyn vlib::api::Formatter) -> i32 {
    let mut s = String::new();
    std::io::Read::read_to_string(&mut std::io::stdin(), &mut s).ok();
    let Ok(job) = serde_json::from_str::<Job>(&s) else { return 2 };
    let r = run_job(f, &job);
    print!("{}", serde_json::to_string(&r).unwrap());
    0
}

fn fresh_process(env: &Env, job: &Job, vars: &[(&str, &str)]) -> Option<Res> {
    let mut cmd = Command::new(&env.exe);
    cmd.arg("fmtone").stdin(Stdio::piped()).stdout(Stdio::piped()).stderr(Stdio::null());
    for (k, v) in vars {
        cmd.env(k, v);
    }
    let mut child = cmd.spawn().ok()?;
    child.stdin.take()?.write_all(serde_json::to_string(job).ok()?.as_bytes()).ok()?;
    let out = child.wait_with_output().ok()?;
    if !out.status.success() {
        return Some(Res::Panic);
    }
    serde_json::from_slice(&out.stdout).ok()
}

impl Prop for C17 {
    type Case = PureCase;

    fn id(&self) -> &'static str {
        "C17"
    }

    fn rule(&self) -> String {
        "Cases = job sets of 2..24 (text, config) pairs: corpus snippets, G1 documents and near-duplicates of them (blanks respelled, so the trees share span numbers while their layout attributes differ), several configs per text (widths, indents, reorder on/off, incl. erroneous texts) x a history: each job twice in a row, a tape-chosen sequential interleaving (A, B, A, C, B, ...), 2..16 threads each formatting a tape-chosen job sequence behind a barrier for several rounds, and fresh processes started with different environments (LANG, LC_ALL, TZ, COLUMNS, NO_COLOR, RUST_BACKTRACE; std's hash seeds differ per process anyway). Oracle: every result is byte-identical (text or refusal) to the reference obtained in a fresh process that formats nothing else. Non-trivial: >= 2 distinct texts formatted concurrently on >= 2 threads with >= 1 repeated job.".into()
    }

    fn assumptions(&self) -> Vec<String> {
        vec![
            "thread interleavings are sampled (barrier start, repeated rounds), not enumerated: the code under test has no synchronisation points to control".into(),
            "leaked state is detected only if it changes some output".into(),
        ]
    }

    fn sweep_len(&self, _env: &Env) -> usize {
        1
    }

    /// deterministic part: one long-lived process that serves far more calls than any 16-bit counter holds
    fn sweep_case(&self, _i: usize, env: &Env) -> Option<PureCase> {
        let jobs = vec![
            Job { src: "#let a   =  (1,2)\n".into(), cfg: Cfg { width: 80, tab: 2, reorder: false, blank: 2 }, wrapper: false },
            Job { src: "Some *text* and $x+y$.\n#f( a,b )\n".into(), cfg: Cfg { width: 20, tab: 4, reorder: true, blank: 2 }, wrapper: false },
            Job { src: "#import \"m.typ\": z, a\n".into(), cfg: Cfg { width: 40, tab: 2, reorder: false, blank: 2 }, wrapper: true },
        ];
        let marathon = match env.tier {
            Tier::Quick => 140_000,
            Tier::Thorough => 1_000_000,
        };
        Some(PureCase { jobs, sequence: vec![0, 1, 2, 0], threads: vec![vec![0, 1], vec![2, 0]], rounds: 2, marathon })
    }

    fn gen_cases(&self, tier: Tier) -> u64 {
        match tier {
            Tier::Quick => 2_000,
            Tier::Thorough => 20_000,
        }
    }

    fn tape_max(&self) -> usize {
        2048
    }

    fn decode(&self, t: &mut Tape, env: &Env, st: &mut Stats) -> Option<PureCase> {
        let n_texts = t.range(2, 6);
        let mut texts: Vec<String> = vec![];
        for _ in 0..n_texts {
            let focus = t.pick(&[Focus::Any, Focus::Code, Focus::Comments, Focus::Imports, Focus::Math]);
            let (mut s, _) = gen::source(t, env.corpus, gen::Mix { snippet: 6, file: 1, mutant: 4, grammar: 6 }, focus);
            if s.len() > 20_000 {
                let mut e = 20_000;
                while !s.is_char_boundary(e) {
                    e -= 1;
                }
                s.truncate(e);
            }
            // near-duplicates: same tokens, other blanks
            let dup = t.weighted(&[3, 3, 2]);
            texts.push(s.clone());
            for _ in 0..dup {
                let root = syn::parse(&s);
                let flat = syn::flatten(&root);
                let spaces: Vec<usize> = (0..flat.len()).filter(|&i| flat[i].node.kind() == syn::K::Space).collect();
                if spaces.is_empty() {
                    break;
                }
                let mut v = s.clone();
                // respell up to 3 blanks, from the back so offsets stay valid
                let mut picks: Vec<usize> = (0..t.range(1, 3)).map(|_| spaces[t.below(spaces.len())]).collect();
                picks.sort_unstable();
                picks.dedup();
                for &i in picks.iter().rev() {
                    let ws = gen::mutate::whitespace(t);
                    v.replace_range(flat[i].start..flat[i].end, &ws);
                }
                texts.push(v);
            }
        }
        // one job set in three also holds deeply nested texts (depth 20..260, same wrapper or a mix): a depth
        // guard, a recursion budget or a pooled stack that is not restored on some path only shows after
        // such a text went through the same thread (seeded change C17-5)
        if t.chance(85) {
            for _ in 0..t.range(1, 2) {
                let depth = match t.weighted(&[2, 3, 2]) {
                    0 => t.range(20, 63),
                    1 => t.range(64, 130),
                    _ => t.range(131, 260),
                };
                let s = if t.coin() {
                    gen::nest::same(t.pick(gen::nest::FAMILIES), depth)
                } else {
                    gen::nest::mixed(t, depth).0
                };
                if !syn::parse(&s).erroneous() {
                    texts.insert(t.below(texts.len() + 1), s);
                    st.label("deeply-nested-text-in-job-set");
                }
            }
        }
        // one job set in six is a small "project": documents that define names and documents that use them
        // (aliases of the calls typstyle lays out specially, templates, rules) -- what one document defines
        // must not change how another one, or the same one on its next call, is laid out (seeded change
        // C17-8: a process-wide registry of `table.with(..)` aliases)
        if t.chance(43) {
            const DEFS: &[&str] = &[
                "#let cards = grid.with(columns: 3, gutter: 4pt)\n#let wide = table.with(columns: (1fr, 2fr))\n",
                "#let cards = grid.with(columns: 2)\n",
                "#let tbl = table\n#let cards = table.with(columns: 4)\n#let f(..a) = grid(columns: 2, ..a)\n",
                "#import \"template.typ\": cards, wide\n#show: doc => cards(doc)\n",
                "#set table(columns: 3)\n#show table: set text(8pt)\n#let cards(..a) = table(columns: 2, ..a)\n",
            ];
            const USES: &[&str] = &[
                "#cards([a], [b], [c], [d], [e], [f])\n",
                "#cards(columns: 2, [a], [bb], [ccc], [d])\n#wide([x], [y], [z], [w])\n",
                "#cards(\n  [a], [b],\n  [c], [d], [e], [f],\n)\n#tbl(columns: 2, [1], [2], [3], [4])\n",
                "= Gallery\n#cards([one], [two], [three])\nText #wide([p], [q]) more.\n",
            ];
            let d = t.pick(DEFS).to_string();
            let u = t.pick(USES).to_string();
            match t.below(3) {
                // use above its definition in one document, definition alone, use alone
                0 => texts.push(format!("{u}{d}")),
                1 => texts.push(format!("{d}{u}")),
                _ => {}
            }
            texts.insert(t.below(texts.len() + 1), d);
            texts.insert(t.below(texts.len() + 1), u);
            st.label("project:definitions-and-uses-in-separate-documents");
        }
        let mut jobs = vec![];
        for s in &texts {
            let k = 1 + t.weighted(&[4, 3, 1]);
            for _ in 0..k {
                if jobs.len() >= 24 {
                    break;
                }
                let cfg = Cfg { width: config::width(t), tab: config::tab(t), reorder: t.chance(60), blank: config::blank(t) };
                let wrapper = t.chance(40);
                let cfg = if wrapper { Cfg { tab: 2, reorder: false, blank: 2, ..cfg } } else { cfg };
                jobs.push(Job { src: s.clone(), cfg, wrapper });
            }
        }
        // a ladder: one text at descending widths, a few columns apart (through the wrapper or not)
        let mut ladder: Vec<usize> = vec![];
        if t.chance(140) && jobs.len() < 22 {
            let src = if t.coin() {
                // a dotted call path at the plain/chain layout threshold (Config::chain_width)
                let w0 = t.range(16, 70);
                let want = ((w0 as f32 * 0.6) as usize).clamp(5, 50);
                let each = (want - 2) / 3;
                format!("#{{\n  {}.{}.{}(dddddd, eeeeee)\n}}\n", "a".repeat(each.max(1)), "b".repeat(each.max(1)), "c".repeat((want - 2 - 2 * each).max(1)))
            } else {
                texts[t.below(texts.len())].clone()
            };
            let wrapper = t.chance(160);
            let mut w = t.range(20, 90);
            for _ in 0..t.range(3, 6) {
                ladder.push(jobs.len());
                jobs.push(Job { src: src.clone(), cfg: Cfg { width: w, tab: 2, reorder: false, blank: 2 }, wrapper });
                w = w.saturating_sub(t.range(1, 6));
            }
            st.label("ladder:descending-widths");
        }
        if jobs.len() < 2 {
            return None;
        }
        st.label(&format!("jobs:{}", if jobs.len() < 8 { "2-7" } else { "8-24" }));
        let n = jobs.len();
        let mut sequence: Vec<usize> = (0..(n * 2).min(40)).map(|_| t.below(n)).collect();
        // the ladder is walked in order somewhere in the sequential history
        let at = t.below(sequence.len() + 1);
        for (k, i) in ladder.iter().enumerate() {
            sequence.insert(at + k, *i);
        }
        let nt = t.pick(&[2usize, 2, 3, 4, 8, 16]);
        let threads = (0..nt).map(|_| (0..t.range(2, 8)).map(|_| t.below(n)).collect()).collect();
        let rounds = match env.tier {
            Tier::Quick => 6,
            Tier::Thorough => 30,
        };
        Some(PureCase { jobs, sequence, threads, rounds, marathon: 0 })
    }

    fn check(&self, c: &PureCase, env: &Env, st: &mut Stats) -> Verdict {
        // reference: fresh process per job
        let mut reference: Vec<Res> = vec![];
        for j in &c.jobs {
            match fresh_process(env, j, &[]) {
                Some(r) => reference.push(r),
                None => return Verdict::skip("fresh-process-failed"),
            }
        }
        if reference.iter().any(|r| *r == Res::Panic) {
            return Verdict::skip("deferred_to_C05:panic");
        }
        let describe = |i: usize| -> String {
            format!("job #{i} (width {}, tab {}, reorder {}, {} bytes)", c.jobs[i].cfg.width, c.jobs[i].cfg.tab, c.jobs[i].cfg.reorder, c.jobs[i].src.len())
        };
        // (a) twice in a row
        for (i, j) in c.jobs.iter().enumerate() {
            for pass in 0..2 {
                let r = run_job(env.f, j);
                if r != reference[i] {
                    return Verdict::fail(
                        "C17:repeated-call-differs",
                        format!("{} gives a different result on call {} in a long-lived process than in a fresh process", describe(i), pass + 1),
                    );
                }
            }
        }
        // (b) sequential interleaving
        for (k, &i) in c.sequence.iter().enumerate() {
            let j = &c.jobs[i];
            let r = run_job(env.f, j);
            if r != reference[i] {
                return Verdict::fail(
                    "C17:history-dependent",
                    format!("{} differs from its fresh-process result at position {k} of the sequential history {:?}", describe(i), &c.sequence[..=k]),
                );
            }
        }
        // (b') marathon: many more calls in this process, then every job once more
        if c.marathon > 0 {
            let m = c.jobs.len().min(3);
            for k in 0..c.marathon {
                let i = k % m;
                let r = run_job(env.f, &c.jobs[i]);
                if r != reference[i] {
                    return Verdict::fail(
                        "C17:call-count-dependent",
                        format!("{} gives a different result on call {} of a long-lived process than in a fresh process ({r:?})", describe(i), k + 1).chars().take(400).collect::<String>(),
                    );
                }
            }
            st.label("marathon");
        }
        // (c) concurrent
        let nt = c.threads.len();
        for round in 0..c.rounds {
            let barrier = Arc::new(Barrier::new(nt));
            let bad: Option<(usize, usize)> = std::thread::scope(|s| {
                let mut handles = vec![];
                for (ti, seq) in c.threads.iter().enumerate() {
                    let barrier = barrier.clone();
                    let reference = &reference;
                    let jobs = &c.jobs;
                    let f = env.f;
                    handles.push(s.spawn(move || {
                        barrier.wait();
                        for &i in seq {
                            let r = run_job(f, &jobs[i]);
                            if r != reference[i] {
                                return Some((ti, i));
                            }
                        }
                        None
                    }));
                }
                handles.into_iter().filter_map(|h| h.join().ok().flatten()).next()
            });
            if let Some((ti, i)) = bad {
                return Verdict::fail(
                    "C17:concurrent-call-differs",
                    format!("{} returned a different result on thread {ti} of {nt} (round {round}) than in a fresh process", describe(i)),
                );
            }
        }
        // (d) other processes, other environments
        const ENVS: &[&[(&str, &str)]] = &[
            &[("LANG", "tr_TR.UTF-8"), ("LC_ALL", "tr_TR.UTF-8"), ("TZ", "Pacific/Kiritimati")],
            &[("COLUMNS", "7"), ("LINES", "3"), ("NO_COLOR", "1"), ("TERM", "dumb")],
            &[("RUST_BACKTRACE", "full"), ("LANG", "C"), ("HOME", "/nonexistent"), ("TMPDIR", "/nonexistent")],
        ];
        let probe = c.sequence.first().copied().unwrap_or(0);
        for (k, vars) in ENVS.iter().enumerate() {
            let i = (probe + k) % c.jobs.len();
            match fresh_process(env, &c.jobs[i], vars) {
                Some(r) if r == reference[i] => {}
                Some(_) => {
                    return Verdict::fail(
                        "C17:environment-dependent",
                        format!("{} gives a different result in a process started with {:?}", describe(i), vars),
                    )
                }
                None => return Verdict::skip("fresh-process-failed"),
            }
        }
        st.label(&format!("threads:{nt}"));
        let distinct_texts: std::collections::BTreeSet<&str> =
            c.threads.iter().flatten().map(|&i| c.jobs[i].src.as_str()).collect();
        let mut seen = std::collections::BTreeSet::new();
        let repeated = c.threads.iter().flatten().any(|i| !seen.insert(*i));
        Verdict::Pass { nontrivial: distinct_texts.len() >= 2 && nt >= 2 && repeated }
    }

    fn reduce(&self, c: &PureCase, _env: &Env, fails: &mut dyn FnMut(&PureCase) -> bool) -> PureCase {
        let mut best = c.clone();
        // drop jobs (re-index)
        let mut i = 0;
        while best.jobs.len() > 2 && i < best.jobs.len() {
            let mut cand = best.clone();
            cand.jobs.remove(i);
            let fix = |v: &mut Vec<usize>| {
                v.retain(|&x| x != i);
                for x in v.iter_mut() {
                    if *x > i {
                        *x -= 1;
                    }
                }
            };
            fix(&mut cand.sequence);
            for th in cand.threads.iter_mut() {
                fix(th);
            }
            cand.threads.retain(|t| !t.is_empty());
            if cand.threads.len() >= 2 && fails(&cand) {
                best = cand;
            } else {
                i += 1;
            }
        }
        best
    }

    fn sample(&self, c: &PureCase) -> Value {
        json!({
            "jobs": c.jobs.iter().take(6).map(|j| json!({"src": syn::clip(&j.src, 120), "width": j.cfg.width, "tab": j.cfg.tab, "reorder": j.cfg.reorder})).collect::<Vec<_>>(),
            "n_jobs": c.jobs.len(),
            "sequence": c.sequence,
            "threads": c.threads,
            "rounds": c.rounds,
        })
    }
}
