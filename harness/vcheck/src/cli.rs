//! C14, C15, C16: the CLI, tested model-based and stateful against the real binary built from
//! /repo. A case is a file tree plus a history of invocations; after every invocation the whole
//! tree (bytes + mtime), stdout and the exit status are compared with a model that uses the
//! library in-process for "the formatted text".

use std::collections::BTreeMap;
use std::path::{Path, PathBuf};
use std::process::{Command, Stdio};

use serde::{Deserialize, Serialize};
use serde_json::{json, Value};
use vlib::api::{Cfg, Fmt};
use vlib::engine::{Env, Prop, Stats, Tier, Verdict};
use vlib::syn;
use vlib::tape::Tape;

#[derive(Clone, Debug, Serialize, Deserialize, PartialEq, Eq)]
pub enum Content {
    Text(String),
    /// not valid UTF-8
    Bytes(Vec<u8>),
}

impl Content {
    fn bytes(&self) -> Vec<u8> {
        match self {
            Content::Text(s) => s.as_bytes().to_vec(),
            Content::Bytes(b) => b.clone(),
        }
    }
}

#[derive(Clone, Debug, Serialize, Deserialize)]
pub enum Kind {
    File { content: Content, immutable: bool },
    Dir,
    DanglingSymlink,
    /// symbolic link to a regular file: a path relative to the tree root, or `outside/<name>`
    Symlink { target: String },
}

#[derive(Clone, Debug, Serialize, Deserialize)]
pub struct Entry {
    /// path relative to the tree root, `/`-separated
    pub path: String,
    pub kind: Kind,
}

#[derive(Clone, Debug, Serialize, Deserialize)]
pub struct Tree {
    /// name of the root directory itself (may be hidden: `.proj`)
    pub root_name: String,
    pub entries: Vec<Entry>,
    /// files next to the root (in `<base>/outside/`), only reachable through symlinks
    #[serde(default)]
    pub outside: Vec<(String, Content)>,
}

#[derive(Clone, Debug, Serialize, Deserialize, PartialEq, Eq)]
pub enum Shape {
    /// paths relative to the tree root (may name missing files / directories)
    Files(Vec<String>),
    Stdin(String),
    /// format-all; None = no directory argument (cwd is the tree root)
    FormatAll(Option<String>),
    /// C16 only: a sequence of calls of the width-only convenience function (the WebAssembly export)
    /// in one thread: (source, width)
    WidthFn(Vec<(String, usize)>),
}

#[derive(Clone, Debug, Serialize, Deserialize)]
pub struct Invocation {
    pub shape: Shape,
    pub check: bool,
    pub inplace: bool,
    pub column: Option<usize>,
    pub tab: Option<usize>,
    pub reorder: bool,
    /// 0 none, 1 -q, 2 -v
    pub verbosity: u8,
    /// put the global flags after the subcommand / the files
    pub flags_last: bool,
    /// how the tree root is referred to: 0 = cwd is the root (relative paths), 1 = cwd is the parent
    /// (paths prefixed with the root name), 2 = absolute paths
    pub addressing: u8,
}

impl Invocation {
    fn cfg(&self) -> Cfg {
        Cfg { width: self.column.unwrap_or(80), tab: self.tab.unwrap_or(2), reorder: self.reorder, blank: 2 }
    }
}

#[derive(Clone, Debug, Serialize, Deserialize)]
pub struct CliCase {
    pub tree: Tree,
    pub history: Vec<Invocation>,
}

#[derive(Clone, Copy, PartialEq, Eq)]
pub enum CliWhich {
    C14,
    C15,
    C16,
}

pub struct CliProp {
    pub which: CliWhich,
}

// ------------------------------------------------------------------------------------ generation

const UNFORMATTED: &[&str] = &[
    "#let MARK{n}   =  (1,2)\n",
    "#let MARK{n}(a,b)={a+b}\n\nSome   text   here.\n",
    "#import \"x.typ\": zeta, alpha , MARK{n}\n#f(a,   b)\n",
    "= Heading MARK{n}\n#table(columns:2,[a],[b],[c],[d])\n",
    "#{\nlet MARK{n}=1;let y=2\n}\n",
    "$ a+b   =  c $ MARK{n}\n#set text(size:10pt,fill:red)\n",
    "#let MARK{n} = f(aaaaaaaaaaaaaaaaaaaa, bbbbbbbbbbbbbbbbbbbbbbbb, cccccccccccccccccccccc, dddddddddddddddd)\n",
    "- item MARK{n}\n   - nested\n#show: x=>x\n",
];

const ERRONEOUS: &[&str] = &["#let MARK{n} = (\n", "#f(MARK{n}\n", "$ MARK{n} \n", "#{ let MARK{n} = }\n", "*unclosed MARK{n}\n"];

/// File and directory names are kept as `String`s in the model; the private-use characters U+E080..U+E0FF
/// stand for the single raw bytes 0x80..0xFF, so a name can be one that is not valid UTF-8 (legal on Unix:
/// Latin-1 `caf\xE9.typ`). Every path that reaches the file system or the command line goes through here.
fn osp(s: &str) -> PathBuf {
    use std::os::unix::ffi::OsStringExt;
    let mut b: Vec<u8> = vec![];
    for ch in s.chars() {
        let c = ch as u32;
        if (0xE080..=0xE0FF).contains(&c) {
            b.push((c - 0xE000) as u8);
        } else {
            let mut buf = [0u8; 4];
            b.extend_from_slice(ch.encode_utf8(&mut buf).as_bytes());
        }
    }
    PathBuf::from(std::ffi::OsString::from_vec(b))
}

fn fill(t: &str, n: usize) -> String {
    t.replace("{n}", &n.to_string())
}

/// a document whose formatted text depends on column / tab-width / reorder
fn option_sensitive(t: &mut Tape, n: usize, column: usize) -> String {
    // a call whose flat length is exactly `column` or `column + 1`
    let head = format!("#let MARK{n} = f(");
    let tail = ")\n";
    let want = if t.coin() { column } else { column + 1 };
    let mut args = String::from("a, b");
    while head.len() + args.len() + 1 < want {
        args.push('x');
    }
    let mut s = format!("{head}{args}{tail}");
    s.push_str("#import \"m.typ\": zz, aa, mm\n#{\n  if c {\n    (1,\n      2)\n  }\n}\n");
    s.push_str(&chain_doc(t, column));
    s
}

/// `#{ aaaa.bbbb.cccc(dddddd, eeeeee) }` with a dotted path about 0.6 x column long: the plain / chain
/// layout decision (Config::chain_width) flips within a few columns of `column`
fn chain_doc(t: &mut Tape, column: usize) -> String {
    let want = ((column as f32 * 0.6) as usize + t.below(3)).saturating_sub(1).clamp(5, 60);
    // three identifiers and two dots
    let each = (want.saturating_sub(2)) / 3;
    let rest = want.saturating_sub(2) - 2 * each;
    let a = "a".repeat(each.max(1));
    let b = "b".repeat(each.max(1));
    let c = "c".repeat(rest.max(1));
    format!("#{{\n  {a}.{b}.{c}(dddddd, eeeeee)\n}}\n")
}

/// a document larger than the buffers an I/O layer typically reads in (8 KiB, 64 KiB) with multi-byte
/// characters all over it, at a tape-chosen byte alignment: a front-end that decodes its input piecewise,
/// truncates it, or limits its size shows here (seeded change C16-4)
fn big_doc(t: &mut Tape, env: &Env, n: usize, erroneous: bool) -> String {
    let target = match t.weighted(&[3, 2, 1]) {
        0 => t.range(8_200, 20_000),
        1 => t.range(65_600, 140_000),
        _ => t.range(140_000, 300_000),
    };
    let mut s = "x".repeat(t.below(4));
    s.push_str(&format!(" #let MARK{n}  = (1,2)\n"));
    const LINES: &[&str] = &[
        "Caf\u{e9} na\u{ef}ve \u{2014} \u{201c}quoted\u{201d} \u{65e5}\u{672c}\u{8a9e}\u{306e}\u{6587} and \u{1f600}\u{1f600}\u{1f600} emoji, \u{3b1}\u{3b2}\u{3b3} \u{5d0}\u{5d1}\u{5d2}.\n",
        "#let   \u{3b4}x = f( \"\u{1f680}\u{1f680}\",  [\u{4e2d}\u{6587}] ,2 )\n",
        "$ \u{3b1} + \u{3b2}  = sum_(i=0)^n \u{1d465}_i $\n",
        "\u{1f600}\u{1f601}\u{1f602}\u{1f603}\u{1f604}\u{1f605}\u{1f606}\u{1f607}\u{1f608}\u{1f609}\u{1f60a}\u{1f60b}\u{1f60c}\u{1f60d}\u{1f60e}\u{1f60f}\n",
    ];
    let c = env.corpus;
    while s.len() < target {
        match t.weighted(&[3, 2]) {
            0 => s.push_str(t.pick(LINES)),
            _ => {
                let it = &c.items[t.pick(&c.wf_snips)];
                if it.text.len() < 4_000 {
                    s.push_str(&it.text);
                    s.push_str("\n\n");
                }
            }
        }
        // an exhausted tape picks the first alternative forever: still terminates, still multi-byte
    }
    if erroneous {
        s.push_str("#(\u{1f600}\n");
    }
    s
}

/// an erroneous text (printed unchanged) whose last line is long and not terminated: what a line-buffered
/// writer still holds when the text ends (seeded change C16-7: `write` instead of `write_all`)
fn long_tail(t: &mut Tape, n: usize) -> String {
    let len = match t.weighted(&[2, 3, 2, 1]) {
        0 => t.range(200, 1023),
        1 => t.range(1024, 9000),
        2 => t.range(9000, 70_000),
        _ => t.range(70_000, 200_000),
    };
    let head = match t.below(3) {
        0 => String::new(),
        1 => format!("#let MARK{n} = 1\n"),
        _ => format!("= Title {n}\n\nSome text.\n"),
    };
    let unit = t.pick(&["lorem ipsum ", "\u{1f600}\u{65e5}\u{672c} ", "x", "word, "]);
    let mut s = format!("{head}#f(MARK{n} ");
    while s.len() < head.len() + len {
        s.push_str(unit);
    }
    s
}

fn gen_content(t: &mut Tape, env: &Env, n: usize, column: usize) -> (Content, &'static str) {
    let (c, class) = gen_content_base(t, env, n, column);
    // spellings that differ from the formatted text only in line ends / final newline / trailing blanks
    match (c, t.weighted(&[10, 2, 1, 2, 1, 1, 1])) {
        (Content::Text(s), 6) => (Content::Text(format!("\u{feff}{s}")), class),
        (Content::Text(s), 1) => (Content::Text(s.replace('\n', "\r\n")), if class == "formatted(default-cfg)" { "formatted+crlf" } else { class }),
        (Content::Text(s), 2) => (Content::Text(s.replace('\n', "\r")), if class == "formatted(default-cfg)" { "formatted+cr" } else { class }),
        (Content::Text(s), 3) => (Content::Text(s.strip_suffix('\n').map(|x| x.to_string()).unwrap_or(s)), if class == "erroneous" { "erroneous+no-final-newline" } else { class }),
        (Content::Text(s), 4) => (Content::Text(s.replacen('\n', "  \n", 1)), if class == "formatted(default-cfg)" { "formatted+trailing-blanks" } else { class }),
        (Content::Text(s), 5) => (Content::Text(format!("{s}\n")), if class == "formatted(default-cfg)" { "formatted+extra-final-newline" } else { class }),
        (c, _) => (c, class),
    }
}

fn gen_content_base(t: &mut Tape, env: &Env, n: usize, column: usize) -> (Content, &'static str) {
    match t.weighted(&[8, 5, 3, 1, 2, 2, 4, 3, 1]) {
        8 => {
            let err = t.chance(64);
            (Content::Text(big_doc(t, env, n, err)), if err { "big(8k..300k,multi-byte)+erroneous" } else { "big(8k..300k,multi-byte)" })
        }
        0 => (Content::Text(fill(t.pick(UNFORMATTED), n)), "unformatted"),
        1 => {
            // already formatted for the default configuration
            let s = fill(t.pick(UNFORMATTED), n);
            match env.f.format(&s, &Cfg::default()) {
                Fmt::Ok(o) => (Content::Text(o), "formatted(default-cfg)"),
                _ => (Content::Text(s), "unformatted"),
            }
        }
        2 if t.chance(64) => (Content::Text(long_tail(t, n)), "erroneous+long-unterminated-last-line"),
        2 => (Content::Text(fill(t.pick(ERRONEOUS), n)), "erroneous"),
        3 => (Content::Text(String::new()), "empty"),
        4 => (Content::Text(format!("#let MARK{n} = 1")), "no-final-newline"),
        5 => {
            // not valid UTF-8 (Latin-1 byte in a comment, UTF-16 mark, truncated sequence), around text that is
            // formatted or not: a front-end that decodes leniently would find something to rewrite
            let text = match t.below(3) {
                0 => format!("#let MARK{n} = 1\n"),
                _ => fill(t.pick(UNFORMATTED), n),
            };
            let bad: &[u8] = match t.below(4) {
                0 => &[0xff, 0xfe, b'\n'],
                1 => b"// caf\xe9\n",
                2 => &[0xe2, 0x82, b'\n'],
                _ => b"#let  x=\"\xc3\x28\"\n",
            };
            let mut b: Vec<u8> = vec![];
            match t.below(3) {
                0 => {
                    b.extend_from_slice(text.as_bytes());
                    b.extend_from_slice(bad);
                }
                1 => {
                    b.extend_from_slice(bad);
                    b.extend_from_slice(text.as_bytes());
                }
                _ => {
                    let cut = text.find('\n').map(|i| i + 1).unwrap_or(text.len());
                    b.extend_from_slice(&text.as_bytes()[..cut]);
                    b.extend_from_slice(bad);
                    b.extend_from_slice(&text.as_bytes()[cut..]);
                }
            }
            (Content::Bytes(b), "non-utf8")
        }
        6 => (Content::Text(option_sensitive(t, n, column)), "option-sensitive"),
        _ => {
            // corpus snippet + marker
            let c = env.corpus;
            let it = &c.items[t.pick(&c.wf_snips)];
            let mut s = it.text.clone();
            if s.len() > 600 {
                let mut e = 600;
                while !s.is_char_boundary(e) {
                    e -= 1;
                }
                s.truncate(e);
            }
            s.push_str(&format!("\n\n#let MARK{n}  = 0\n"));
            (Content::Text(s), "corpus-snippet")
        }
    }
}

const FILE_NAMES: &[&str] = &[
    "a.typ", "b.typ", "main.typ", "c d.typ", "ü.typ", "x.TYP", "y.typ.bak", "notes.txt", "noext", ".hidden.typ", "z.typ", "typ",
    "w.typ", "v.typ", "caf\u{e0e9}.typ", "\u{e0ff}\u{e0fe}.typ", "n\u{e0e9}.txt",
    // names a careless temporary-file scheme would collide with
    "a.tmp", "main.tmp", "a.typ.tmp", "a.typ~", "b.bak",
];
const DIR_NAMES: &[&str] = &["sub", "deep", ".git", ".cache", "d.typ", "chapters", "x y", "r\u{e0e9}p"];
const ROOT_NAMES: &[&str] = &["proj", "proj", ".proj", "my proj", "r.typ", ".x"];

fn gen_tree(t: &mut Tape, env: &Env, st: &mut Stats, column: usize) -> Tree {
    let root_name = t.pick(ROOT_NAMES).to_string();
    let mut entries: Vec<Entry> = vec![];
    let mut dirs: Vec<String> = vec![String::new()];
    let nd = t.weighted(&[2, 3, 3, 2]);
    for _ in 0..nd {
        let parent = dirs[t.below(dirs.len())].clone();
        if parent.matches('/').count() >= 3 {
            continue;
        }
        let name = t.pick(DIR_NAMES);
        let p = if parent.is_empty() { name.to_string() } else { format!("{parent}/{name}") };
        if dirs.contains(&p) {
            continue;
        }
        dirs.push(p.clone());
        entries.push(Entry { path: p, kind: Kind::Dir });
    }
    let nf = 1 + t.weighted(&[1, 3, 4, 3, 2, 1]);
    let mut n = 0;
    for _ in 0..nf {
        let parent = dirs[t.below(dirs.len())].clone();
        let name = t.pick(FILE_NAMES);
        let p = if parent.is_empty() { name.to_string() } else { format!("{parent}/{name}") };
        if entries.iter().any(|e| e.path == p) || dirs.contains(&p) {
            continue;
        }
        n += 1;
        if t.chance(10) {
            st.label("tree:dangling-symlink");
            entries.push(Entry { path: p, kind: Kind::DanglingSymlink });
            continue;
        }
        let (content, class) = gen_content(t, env, n, column);
        st.label(&format!("file:{class}"));
        st.label_if(p.chars().any(|c| (0xE080..=0xE0FF).contains(&(c as u32))), "file:name-or-directory-not-utf8");
        let immutable = t.chance(16);
        st.label_if(immutable, "file:immutable");
        entries.push(Entry { path: p, kind: Kind::File { content, immutable } });
    }
    // symbolic links named like eligible files that resolve to files which are NOT eligible themselves
    let mut outside = vec![];
    let nl = t.weighted(&[5, 3, 1]);
    for k in 0..nl {
        let parent = dirs[t.below(dirs.len())].clone();
        let name = t.pick(&["link.typ", "alias.typ", "l2.typ"]);
        let p = if parent.is_empty() { name.to_string() } else { format!("{parent}/{name}") };
        if entries.iter().any(|e| e.path == p) {
            continue;
        }
        let ineligible: Vec<String> = entries
            .iter()
            .filter(|e| matches!(e.kind, Kind::File { .. }))
            .map(|e| e.path.clone())
            .filter(|f| {
                f.split('/').any(is_hidden) || !Path::new(f).extension().is_some_and(|x| x == "typ")
            })
            .collect();
        let target = if !ineligible.is_empty() && t.coin() {
            ineligible[t.below(ineligible.len())].clone()
        } else {
            let oname = format!("o{k}.{}", t.pick(&["typ", "txt"]));
            outside.push((oname.clone(), Content::Text(fill(t.pick(UNFORMATTED), 70 + k))));
            format!("outside/{oname}")
        };
        st.label("tree:symlink-to-ineligible-file");
        entries.push(Entry { path: p, kind: Kind::Symlink { target } });
    }
    st.label_if(root_name.starts_with('.'), "root:hidden-name");
    Tree { root_name, entries, outside }
}

fn gen_invocation(t: &mut Tape, env: &Env, tree: &Tree, which: CliWhich, column: usize, st: &mut Stats) -> Invocation {
    let files: Vec<String> = tree.entries.iter().filter(|e| !matches!(e.kind, Kind::Dir)).map(|e| e.path.clone()).collect();
    let dirs: Vec<String> = tree.entries.iter().filter(|e| matches!(e.kind, Kind::Dir)).map(|e| e.path.clone()).collect();
    if which == CliWhich::C16 && t.chance(40) {
        // the width-only convenience function: one or two texts at several widths, mostly ladders of
        // descending widths (a front-end that remembers a previous answer shows there)
        let mut texts: Vec<String> = vec![];
        for _ in 0..1 + t.below(2) {
            texts.push(match t.below(5) {
                0 => fill(t.pick(UNFORMATTED), 98),
                1 => fill(t.pick(ERRONEOUS), 98),
                2 => chain_doc(t, column),
                _ => option_sensitive(t, 98, column),
            });
        }
        let mut calls = vec![];
        let mut w = column + t.below(12);
        for _ in 0..2 + t.below(6) {
            let s = texts[t.below(texts.len())].clone();
            calls.push((s, w));
            w = match t.weighted(&[6, 2, 1]) {
                0 => w.saturating_sub(1 + t.below(5)),
                1 => w,
                _ => w + t.below(30),
            };
        }
        st.label("shape:width-fn");
        return Invocation {
            shape: Shape::WidthFn(calls),
            check: false,
            inplace: false,
            column: None,
            tab: None,
            reorder: false,
            verbosity: 0,
            flags_last: false,
            addressing: 0,
        };
    }
    let shape_w = match which {
        CliWhich::C14 => [5, 2, 4],
        CliWhich::C15 => [5, 0, 5],
        CliWhich::C16 => [6, 3, 3],
    };
    let shape = match t.weighted(&shape_w) {
        0 => {
            let k = 1 + t.weighted(&[3, 3, 2, 1]);
            let mut v = vec![];
            for _ in 0..k {
                match t.weighted(&[12, 1, 1]) {
                    0 if !files.is_empty() => v.push(files[t.below(files.len())].clone()),
                    1 => v.push("missing.typ".to_string()),
                    _ if !dirs.is_empty() => v.push(dirs[t.below(dirs.len())].clone()),
                    _ => v.push("nope/none.typ".to_string()),
                }
            }
            Shape::Files(v)
        }
        1 => {
            let s = match t.weighted(&[4, 4, 4, 4, 1]) {
                0 => fill(t.pick(UNFORMATTED), 99),
                1 if t.chance(64) => {
                    st.label("stdin:erroneous+long-unterminated-last-line");
                    long_tail(t, 99)
                }
                1 => fill(t.pick(ERRONEOUS), 99),
                2 => "#let MARK99 = 1".to_string(),
                3 => option_sensitive(t, 99, column),
                _ => {
                    st.label("stdin:big(8k..300k,multi-byte)");
                    let err = t.chance(64);
                    big_doc(t, env, 99, err)
                }
            };
            Shape::Stdin(s)
        }
        _ => {
            if t.chance(100) || dirs.is_empty() {
                if t.coin() {
                    Shape::FormatAll(None)
                } else {
                    Shape::FormatAll(Some(String::new()))
                }
            } else {
                Shape::FormatAll(Some(dirs[t.below(dirs.len())].clone()))
            }
        }
    };
    let (check, inplace) = match which {
        // `-i` is a top-level flag: clap accepts it together with `--check` only across command levels
        // (`typstyle -i format-all --check`); next to each other the pair is a usage error
        CliWhich::C14 => (true, t.chance(if matches!(shape, Shape::FormatAll(_)) { 70 } else { 16 })),
        CliWhich::C15 => (false, matches!(shape, Shape::Files(_)) || t.chance(60)),
        CliWhich::C16 => {
            if matches!(shape, Shape::Files(_)) && t.chance(80) {
                (false, true)
            } else {
                (false, false)
            }
        }
    };
    let column_opt = if t.chance(150) { Some(column) } else { None };
    let tab = if t.chance(120) { Some(t.range(0, 16)) } else { None };
    let inv = Invocation {
        shape,
        check,
        inplace,
        column: column_opt,
        tab,
        reorder: t.chance(100),
        verbosity: t.weighted(&[6, 2, 2]) as u8,
        flags_last: t.coin(),
        addressing: t.weighted(&[4, 3, 2]) as u8,
    };
    st.label(match &inv.shape {
        Shape::Files(v) if v.len() > 1 => "shape:several-files",
        Shape::Files(_) => "shape:one-file",
        Shape::Stdin(_) => "shape:stdin",
        Shape::FormatAll(None) => "shape:format-all(cwd)",
        Shape::FormatAll(Some(_)) => "shape:format-all(dir)",
        Shape::WidthFn(_) => "shape:width-fn",
    });
    st.label_if(inv.check && inv.inplace, "flags:inplace+check");
    inv
}

// ------------------------------------------------------------------------------------ materialise

fn fixed_mtime() -> filetime::FileTime {
    filetime::FileTime::from_unix_time(1_000_000_000, 0)
}

struct Snapshot {
    /// relative path -> (bytes, mtime)
    files: BTreeMap<String, (Vec<u8>, filetime::FileTime)>,
    /// every entry below the scratch base (tree and `outside/`): path -> 'f'ile / 'd'irectory / sym'l'ink
    listing: BTreeMap<String, char>,
}

fn list_all(base: &Path, dir: &Path, out: &mut BTreeMap<String, char>) {
    let Ok(rd) = std::fs::read_dir(dir) else { return };
    for e in rd.flatten() {
        let p = e.path();
        let Ok(md) = std::fs::symlink_metadata(&p) else { continue };
        let rel = p.strip_prefix(base).unwrap_or(&p).display().to_string();
        let k = if md.file_type().is_symlink() {
            'l'
        } else if md.is_dir() {
            'd'
        } else {
            'f'
        };
        out.insert(rel, k);
        if k == 'd' {
            list_all(base, &p, out);
        }
    }
}

fn snapshot(root: &Path, tree: &Tree) -> Snapshot {
    let mut files = BTreeMap::new();
    for (name, _) in &tree.outside {
        let p = root.parent().unwrap_or(root).join("outside").join(name);
        let bytes = std::fs::read(&p).unwrap_or_default();
        let mt = std::fs::symlink_metadata(&p).map(|m| filetime::FileTime::from_last_modification_time(&m)).unwrap_or(filetime::FileTime::zero());
        files.insert(format!("//outside/{name}"), (bytes, mt));
    }
    for e in &tree.entries {
        if let Kind::File { .. } = e.kind {
            let p = root.join(osp(&e.path));
            let bytes = std::fs::read(&p).unwrap_or_default();
            let mt = std::fs::symlink_metadata(&p).map(|m| filetime::FileTime::from_last_modification_time(&m)).unwrap_or(filetime::FileTime::zero());
            files.insert(e.path.clone(), (bytes, mt));
        }
    }
    let mut listing = BTreeMap::new();
    let base = root.parent().unwrap_or(root);
    list_all(base, base, &mut listing);
    Snapshot { files, listing }
}

fn set_immutable(p: &Path, on: bool) -> bool {
    Command::new("chattr").arg(if on { "+i" } else { "-i" }).arg(p).stdout(Stdio::null()).stderr(Stdio::null()).status().is_ok_and(|s| s.success())
}

struct Materialised {
    base: PathBuf,
    root: PathBuf,
    immutable: Vec<PathBuf>,
    immutable_supported: bool,
}

impl Drop for Materialised {
    fn drop(&mut self) {
        for p in &self.immutable {
            set_immutable(p, false);
        }
        let _ = std::fs::remove_dir_all(&self.base);
    }
}

fn materialise(tree: &Tree, env: &Env, id: u64) -> std::io::Result<Materialised> {
    let base = env.scratch.join(format!("case-{id:016x}"));
    let _ = std::fs::remove_dir_all(&base);
    let root = base.join(osp(&tree.root_name));
    std::fs::create_dir_all(&root)?;
    let mut m = Materialised { base, root: root.clone(), immutable: vec![], immutable_supported: true };
    for e in &tree.entries {
        let p = root.join(osp(&e.path));
        if let Some(parent) = p.parent() {
            std::fs::create_dir_all(parent)?;
        }
        match &e.kind {
            Kind::Dir => std::fs::create_dir_all(&p)?,
            Kind::DanglingSymlink => {
                let _ = std::os::unix::fs::symlink("does-not-exist-target", &p);
            }
            Kind::Symlink { .. } => {} // after all files exist
            Kind::File { content, .. } => std::fs::write(&p, content.bytes())?,
        }
    }
    if !tree.outside.is_empty() {
        std::fs::create_dir_all(m.base.join("outside"))?;
        for (name, content) in &tree.outside {
            std::fs::write(m.base.join("outside").join(name), content.bytes())?;
        }
    }
    for e in &tree.entries {
        if let Kind::Symlink { target } = &e.kind {
            let abs = if let Some(o) = target.strip_prefix("outside/") { m.base.join("outside").join(o) } else { root.join(osp(target)) };
            let _ = std::os::unix::fs::symlink(abs, root.join(osp(&e.path)));
        }
    }
    Ok(m_finish(m, tree))
}

fn m_finish(mut m: Materialised, tree: &Tree) -> Materialised {
    // fixed mtimes first, then immutability
    for e in &tree.entries {
        if let Kind::File { immutable, .. } = &e.kind {
            let p = m.root.join(osp(&e.path));
            let _ = filetime::set_file_mtime(&p, fixed_mtime());
            if *immutable {
                if set_immutable(&p, true) {
                    m.immutable.push(p);
                } else {
                    m.immutable_supported = false;
                }
            }
        }
    }
    m
}

fn reset_mtimes(m: &Materialised, tree: &Tree) {
    for (name, _) in &tree.outside {
        let _ = filetime::set_file_mtime(m.base.join("outside").join(name), fixed_mtime());
    }
    for e in &tree.entries {
        if let Kind::File { immutable, .. } = &e.kind {
            let p = m.root.join(osp(&e.path));
            let imm = *immutable && m.immutable.contains(&p);
            if imm {
                set_immutable(&p, false);
            }
            let _ = filetime::set_file_mtime(&p, fixed_mtime());
            if imm {
                set_immutable(&p, true);
            }
        }
    }
}

struct RunOut {
    code: Option<i32>,
    stdout: Vec<u8>,
    stderr: Vec<u8>,
}

fn path_arg(inv: &Invocation, m: &Materialised, tree: &Tree, rel: &str) -> std::ffi::OsString {
    match inv.addressing {
        0 => {
            if rel.is_empty() {
                ".".into()
            } else {
                osp(rel).into_os_string()
            }
        }
        1 => {
            if rel.is_empty() {
                osp(&tree.root_name).into_os_string()
            } else {
                osp(&format!("{}/{rel}", tree.root_name)).into_os_string()
            }
        }
        _ => m.root.join(osp(rel)).into_os_string(),
    }
}

fn run_cli(cli: &Path, inv: &Invocation, m: &Materialised, tree: &Tree) -> std::io::Result<RunOut> {
    let mut flags: Vec<std::ffi::OsString> = vec![];
    if inv.check {
        flags.push("--check".into());
    }
    if let Some(c) = inv.column {
        flags.push("-c".into());
        flags.push(c.to_string().into());
    }
    if let Some(t) = inv.tab {
        flags.push("-t".into());
        flags.push(t.to_string().into());
    }
    if inv.reorder {
        flags.push("--reorder-import-items".into());
    }
    match inv.verbosity {
        1 => flags.push("-q".into()),
        2 => flags.push("-v".into()),
        _ => {}
    }
    let mut args: Vec<std::ffi::OsString> = vec![];
    let mut cwd = match inv.addressing {
        1 => m.base.clone(),
        _ => m.root.clone(),
    };
    let mut stdin_data: Option<Vec<u8>> = None;
    match &inv.shape {
        Shape::Files(fs) => {
            let mut pos: Vec<std::ffi::OsString> = fs.iter().map(|f| path_arg(inv, m, tree, f)).collect();
            if inv.inplace {
                flags.push("-i".into());
            }
            if inv.flags_last {
                args.append(&mut pos);
                args.append(&mut flags);
            } else {
                args.append(&mut flags);
                args.append(&mut pos);
            }
        }
        Shape::Stdin(s) => {
            stdin_data = Some(s.as_bytes().to_vec());
            args.append(&mut flags);
        }
        Shape::FormatAll(dir) => {
            let mut sub: Vec<std::ffi::OsString> = vec!["format-all".into()];
            match dir {
                None => cwd = m.root.clone(),
                Some(d) => sub.push(path_arg(inv, m, tree, d)),
            }
            // -i is a top-level flag (before the subcommand) and irrelevant for format-all; global flags may
            // go on either side -- except that `--check` next to `-i` is a usage error, so it follows
            // the subcommand then
            if inv.inplace {
                args.push("-i".into());
            }
            if inv.inplace && inv.check {
                flags.retain(|f| f != "--check");
                sub.push("--check".into());
            }
            if inv.flags_last {
                args.append(&mut sub);
                args.append(&mut flags);
            } else {
                args.append(&mut flags);
                args.append(&mut sub);
            }
        }
        Shape::WidthFn(_) => unreachable!("not a CLI invocation"),
    }
    let mut cmd = Command::new(cli);
    cmd.args(&args)
        .current_dir(&cwd)
        .env_clear()
        .env("NO_COLOR", "1")
        .env("PATH", "/usr/bin:/bin")
        .stdin(if stdin_data.is_some() { Stdio::piped() } else { Stdio::null() })
        .stdout(Stdio::piped())
        .stderr(Stdio::piped());
    let mut child = cmd.spawn()?;
    if let Some(d) = stdin_data {
        use std::io::Write;
        if let Some(mut si) = child.stdin.take() {
            let _ = si.write_all(&d);
        }
    }
    let out = child.wait_with_output()?;
    Ok(RunOut { code: out.status.code(), stdout: out.stdout, stderr: out.stderr })
}

// ------------------------------------------------------------------------------------ model

#[derive(Debug)]
struct FileExpect {
    /// expected bytes after the invocation
    bytes: Vec<u8>,
    /// must the file be left completely alone (bytes and mtime)?
    untouched: bool,
    why: &'static str,
}

struct Expect {
    files: BTreeMap<String, FileExpect>,
    /// exact stdout, when the mode prints documents and no log lines
    stdout: Option<Vec<u8>>,
    /// acceptable exit codes
    exit_ok: Vec<i32>,
    why_exit: String,
    /// counters for non-triviality
    rewritten: usize,
    untouched_other: usize,
    kinds: std::collections::BTreeSet<&'static str>,
}

fn is_hidden(name: &str) -> bool {
    name.starts_with('.')
}

/// files (relative to the tree root) format-all is supposed to visit when started at `dir`
fn eligible(tree: &Tree, dir: &str) -> Vec<String> {
    let mut v = vec![];
    for e in &tree.entries {
        if !matches!(e.kind, Kind::File { .. }) {
            continue;
        }
        let rel_to_dir: &str = if dir.is_empty() {
            &e.path
        } else if let Some(r) = e.path.strip_prefix(&format!("{dir}/")) {
            r
        } else {
            continue;
        };
        // no component below the walk root may be hidden
        if rel_to_dir.split('/').any(is_hidden) {
            continue;
        }
        let name = rel_to_dir.rsplit('/').next().unwrap_or("");
        // extension exactly `typ`
        let ext_ok = Path::new(name).extension().is_some_and(|x| x == "typ");
        if !ext_ok {
            continue;
        }
        v.push(e.path.clone());
    }
    v
}

fn expect(state0: &BTreeMap<String, Vec<u8>>, tree: &Tree, inv: &Invocation, env: &Env, immutable_ok: bool) -> Expect {
    let cfg = inv.cfg();
    // inputs are processed one after the other: a file named twice is read again after it was written
    let mut state_mut = state0.clone();
    let state = state0;
    let mut ex = Expect {
        files: BTreeMap::new(),
        stdout: None,
        exit_ok: vec![0],
        why_exit: String::new(),
        rewritten: 0,
        untouched_other: 0,
        kinds: Default::default(),
    };
    // default: everything untouched
    for (p, b) in state {
        ex.files.insert(p.clone(), FileExpect { bytes: b.clone(), untouched: true, why: "not an input" });
    }
    let entry_kind = |p: &str| tree.entries.iter().find(|e| e.path == p).map(|e| &e.kind);
    let mut changed = false;
    let mut io_error = false;
    let mut ambiguous_io = false;
    let mut out = Vec::new();
    // one input: returns (status for the model)
    let mut handle = |p: Option<&str>, text: Result<String, ()>, ex: &mut Expect, out: &mut Vec<u8>, writes: bool| {
        match text {
            Err(()) => {
                io_error = true;
                ex.kinds.insert("unreadable");
            }
            Ok(s) => {
                let root = syn::parse(&s);
                if root.erroneous() {
                    ex.kinds.insert("erroneous");
                    out.extend_from_slice(s.as_bytes());
                    if let Some(p) = p {
                        ex.files.get_mut(p).map(|f| f.why = "erroneous: never written back");
                    }
                    return;
                }
                let f = match env.f.format(&s, &cfg) {
                    Fmt::Ok(o) => o,
                    _ => s.clone(),
                };
                out.extend_from_slice(f.as_bytes());
                if f != s {
                    changed = true;
                    ex.kinds.insert("changed");
                    if writes {
                        if let Some(p) = p {
                            let imm = matches!(entry_kind(p), Some(Kind::File { immutable: true, .. })) && immutable_ok;
                            if imm {
                                io_error = true;
                                ex.kinds.insert("write-fails");
                                ex.files.insert(p.to_string(), FileExpect { bytes: s.into_bytes(), untouched: true, why: "immutable: the write fails" });
                            } else {
                                ex.rewritten += 1;
                                ex.files.insert(p.to_string(), FileExpect { bytes: f.into_bytes(), untouched: false, why: "changed: must hold exactly the formatted text" });
                            }
                        }
                    }
                } else {
                    ex.kinds.insert("unchanged");
                    if let Some(p) = p {
                        ex.files.get_mut(p).map(|f| f.why = "already formatted");
                    }
                }
            }
        }
    };
    match &inv.shape {
        Shape::Files(fs) => {
            for p in fs {
                // a symbolic link named on the command line is read and written THROUGH (it stays a link)
                let key: String = match entry_kind(p) {
                    Some(Kind::Symlink { target }) => match target.strip_prefix("outside/") {
                        Some(o) => format!("//outside/{o}"),
                        None => target.clone(),
                    },
                    _ => p.clone(),
                };
                let text: Result<String, ()> = match entry_kind(p) {
                    Some(Kind::File { .. }) | Some(Kind::Symlink { .. }) => String::from_utf8(state_mut.get(&key).cloned().unwrap_or_default()).map_err(|_| ()),
                    _ => Err(()), // missing, directory, dangling symlink
                };
                handle(Some(&key), text, &mut ex, &mut out, inv.inplace && !inv.check);
                if let Some(fe) = ex.files.get(&key) {
                    state_mut.insert(key.clone(), fe.bytes.clone());
                }
            }
            if !inv.inplace && !inv.check {
                ex.stdout = Some(out);
            }
        }
        Shape::Stdin(s) => {
            handle(None, Ok(s.clone()), &mut ex, &mut out, false);
            if !inv.check {
                ex.stdout = Some(out);
            }
        }
        Shape::FormatAll(dir) => {
            let d = dir.clone().unwrap_or_default();
            for p in eligible(tree, &d) {
                let text = String::from_utf8(state.get(&p).cloned().unwrap_or_default()).map_err(|_| ());
                if text.is_err() {
                    // read_to_string fails; the code skips such files silently and the statement does
                    // not say which status this gives: both are accepted for such trees
                    ambiguous_io = true;
                    ex.kinds.insert("unreadable");
                    continue;
                }
                handle(Some(&p), text, &mut ex, &mut out, !inv.check);
            }
        }
        Shape::WidthFn(_) => {}
    }
    ex.untouched_other = ex.files.values().filter(|f| f.untouched && f.why != "already formatted").count();
    if inv.check {
        ex.exit_ok = if changed || io_error { vec![1] } else { vec![0] };
        ex.why_exit = format!("check mode: changed={changed} io_error={io_error}");
    } else {
        ex.exit_ok = if io_error { vec![1] } else { vec![0] };
        ex.why_exit = format!("io_error={io_error}");
    }
    if ambiguous_io && !ex.exit_ok.contains(&1) {
        ex.exit_ok.push(1);
    }
    if inv.check && inv.inplace && matches!(inv.shape, Shape::Files(_)) {
        // clap rejects the pair (usage error, status 2); nothing may be touched either way
        ex.exit_ok.push(2);
    }
    ex
}

// ------------------------------------------------------------------------------------ the property

impl Prop for CliProp {
    type Case = CliCase;

    fn id(&self) -> &'static str {
        match self.which {
            CliWhich::C14 => "C14",
            CliWhich::C15 => "C15",
            CliWhich::C16 => "C16",
        }
    }

    fn workers(&self) -> usize {
        16
    }

    fn rule(&self) -> String {
        let common = "Cases = generated file trees (up to 4 levels; files: unformatted / formatted / erroneous / empty / no final newline / non-UTF-8 / option-sensitive / corpus snippets; names: *.typ, .TYP, .typ.bak, .txt, none, hidden files, hidden directories, a directory named *.typ, dangling symlinks, immutable files via chattr +i; root directory named plainly, hidden (.proj, .x) or like a file) x histories of 1-3 invocations of the real CLI binary built from /repo (files in any order with duplicates / missing paths / directories, stdin, format-all with and without directory; --check / -i; -c, -t, --reorder-import-items, -q/-v; flags before or after the subcommand; cwd = root, cwd = parent, absolute paths). After every invocation the whole tree (bytes + mtime; all mtimes are reset to a fixed past instant first), stdout and the exit status are compared with a model that computes `the formatted text` with the library in-process. ";
        let specific = match self.which {
            CliWhich::C14 => "C14 oracle: nothing modified (bytes and mtime), stdout contains no document text (every document carries a MARK<n> identifier, stdout must not contain `MARK`), exit status 1 iff a readable well-formed input differs from its formatted form or a named input cannot be read, else 0 (format-all + non-UTF-8 eligible file: both accepted). Non-trivial: the inputs mix >= 2 of {changed, unchanged, erroneous, unreadable}.",
            CliWhich::C15 => "C15 oracle: every eligible, readable, well-formed input whose formatted text differs holds exactly the formatted text; every other file keeps bytes and mtime; read failures (missing, directory, non-UTF-8, dangling symlink) and write failures (immutable) neither stop nor affect the others and give a non-zero exit status; otherwise exit 0. Non-trivial: >= 1 file rewritten and >= 1 file that must stay untouched for a reason other than `already formatted`.",
            CliWhich::C16 => "C16 oracle (differential against the library): stdout == concatenation in argument order of fmt(text, Config{column, tab-width, reorder}) or of the input itself when erroneous, nothing added or dropped; file contents after -i / format-all equal the same. Documents are option-sensitive (a call whose flat length is exactly column or column+1, unsorted imports, nesting). Non-trivial: the expected output differs from what the default options would give, or several documents are concatenated.",
        };
        format!("{common}{specific}")
    }

    fn assumptions(&self) -> Vec<String> {
        vec![
            "the CLI binary is built from /repo's working tree into harness/target-cli by ./check before the run".into(),
            "permission-denied reads cannot be produced as root; unreadable inputs are modelled by missing paths, directories, non-UTF-8 content and dangling symlinks; write failures by immutable files".into(),
            "the model's `formatted text` is the library call in the same build (typstyle-core path dependency)".into(),
        ]
    }

    fn gen_cases(&self, tier: Tier) -> u64 {
        match tier {
            Tier::Quick => 30_000,
            Tier::Thorough => 300_000,
        }
    }

    fn decode(&self, t: &mut Tape, env: &Env, st: &mut Stats) -> Option<CliCase> {
        env.cli.as_ref()?;
        let column = match t.weighted(&[3, 3, 2, 1]) {
            0 => 80,
            1 => t.range(20, 60),
            2 => t.range(0, 400),
            _ => 0,
        };
        let tree = gen_tree(t, env, st, column);
        let n = 1 + t.weighted(&[4, 3, 1]);
        let history = (0..n).map(|_| gen_invocation(t, env, &tree, self.which, column, st)).collect();
        Some(CliCase { tree, history })
    }

    fn check(&self, c: &CliCase, env: &Env, st: &mut Stats) -> Verdict {
        let Some(cli) = env.cli.as_ref() else { return Verdict::skip("cli-binary-not-built") };
        let id = syn::fnv64(serde_json::to_string(c).unwrap_or_default().as_bytes()) ^ std::process::id() as u64;
        let m = match materialise(&c.tree, env, id) {
            Ok(m) => m,
            Err(e) => return Verdict::skip(format!("materialise-failed:{}", e.kind())),
        };
        if !m.immutable_supported {
            st.skip("immutable-flag-unsupported");
        }
        let mut nontrivial = false;
        for (k, inv) in c.history.iter().enumerate() {
            if let Shape::WidthFn(calls) = &inv.shape {
                // the width-only convenience function, called repeatedly in one thread
                for (j, (src, w)) in calls.iter().enumerate() {
                    let want = if syn::wf(src) {
                        match env.f.format(src, &Cfg { width: *w, tab: 2, reorder: false, blank: 2 }) {
                            Fmt::Ok(o) => o,
                            _ => return Verdict::skip("deferred_to_C05:panic"),
                        }
                    } else {
                        src.clone()
                    };
                    match env.f.format_with_width(src, *w) {
                        Ok(got) if got == want => {}
                        Ok(got) => {
                            let la: Vec<&str> = want.split('\n').collect();
                            let lb: Vec<&str> = got.split('\n').collect();
                            let i = la.iter().zip(lb.iter()).position(|(x, y)| x != y).unwrap_or(la.len().min(lb.len()));
                            return Verdict::fail(
                                "C16:width-fn-differs-from-library",
                                format!(
                                    "invocation #{k}: call {j} of the sequence (widths {:?}): format_with_width(src, {w}) differs from the library result at line {}: library {:?}, wrapper {:?}",
                                    calls.iter().map(|c| c.1).collect::<Vec<_>>(),
                                    i + 1,
                                    la.get(i),
                                    lb.get(i)
                                ),
                            );
                        }
                        Err(_) => return Verdict::skip("deferred_to_C05:panic"),
                    }
                }
                st.label("shape:width-fn:evaluated");
                nontrivial |= calls.len() >= 2;
                continue;
            }
            reset_mtimes(&m, &c.tree);
            let before = snapshot(&m.root, &c.tree);
            let state: BTreeMap<String, Vec<u8>> = before.files.iter().map(|(p, (b, _))| (p.clone(), b.clone())).collect();
            let ex = expect(&state, &c.tree, inv, env, m.immutable_supported);
            let out = match run_cli(cli, inv, &m, &c.tree) {
                Ok(o) => o,
                Err(e) => return Verdict::skip(format!("spawn-failed:{}", e.kind())),
            };
            let after = snapshot(&m.root, &c.tree);
            let ctx = format!("invocation #{k} {:?} (check={} inplace={} cfg={:?})", inv.shape, inv.check, inv.inplace, inv.cfg());
            let Some(code) = out.code else {
                return Verdict::fail(format!("{}:killed-by-signal", self.id()), format!("{ctx}: the CLI was killed by a signal; stderr: {}", String::from_utf8_lossy(&out.stderr)));
            };
            if code == 2 && String::from_utf8_lossy(&out.stderr).contains("Usage") {
                // a usage error must not have touched anything
                for (p, (bb, bmt)) in &before.files {
                    let (ab, amt) = after.files.get(p).cloned().unwrap_or((vec![], filetime::FileTime::zero()));
                    if &ab != bb || amt != *bmt {
                        return Verdict::fail(format!("{}:usage-error-modified-file", self.id()), format!("{ctx}: the CLI reported a usage error but modified {p}"));
                    }
                }
                if inv.check && inv.inplace {
                    st.label("usage-error:inplace+check");
                    continue;
                }
                // every other generated invocation is valid (on the pinned tree none is rejected): being
                // rejected as a whole means that no input was processed
                return Verdict::fail(
                    format!("{}:unexpected-usage-error", self.id()),
                    format!("{ctx}: the CLI rejected the whole invocation (status 2): {}", syn::clip(&String::from_utf8_lossy(&out.stderr), 240)),
                );
            }
            // ---- shape of the tree: nothing appears, disappears or changes its kind (a symbolic link stays
            // a link, no temporary file is left behind)
            if before.listing != after.listing {
                let diff: Vec<String> = after
                    .listing
                    .iter()
                    .filter(|(p, k)| before.listing.get(*p) != Some(k))
                    .map(|(p, k)| format!("{p} is now '{k}' (was {:?})", before.listing.get(p)))
                    .chain(before.listing.keys().filter(|p| !after.listing.contains_key(*p)).map(|p| format!("{p} disappeared")))
                    .take(4)
                    .collect();
                return Verdict::fail(format!("{}:tree-shape-changed", self.id()), format!("{ctx}: {}", diff.join("; ")));
            }
            // ---- files
            for (p, fe) in &ex.files {
                let (ab, amt) = after.files.get(p).cloned().unwrap_or((vec![], filetime::FileTime::zero()));
                let (_, bmt) = before.files.get(p).cloned().unwrap_or((vec![], filetime::FileTime::zero()));
                match self.which {
                    CliWhich::C14 => {
                        if ab != state[p] || amt != bmt {
                            return Verdict::fail(
                                format!("C14:file-modified:{}", if ab != state[p] { "bytes" } else { "mtime" }),
                                format!("{ctx}: check mode modified {p} ({})", if ab != state[p] { "content changed" } else { "mtime changed" }),
                            );
                        }
                    }
                    CliWhich::C15 => {
                        if ab != fe.bytes {
                            let kind = if fe.untouched { "should-be-untouched" } else if ab == state[p] { "not-rewritten" } else { "wrong-content" };
                            return Verdict::fail(
                                format!("C15:{kind}"),
                                format!("{ctx}: {p} [{}]: expected {:?}, found {:?}", fe.why, syn::clip(&String::from_utf8_lossy(&fe.bytes), 160), syn::clip(&String::from_utf8_lossy(&ab), 160)),
                            );
                        }
                        if fe.untouched && amt != bmt {
                            return Verdict::fail("C15:rewritten-without-change", format!("{ctx}: {p} [{}] kept its bytes but its mtime changed (it was rewritten)", fe.why));
                        }
                    }
                    CliWhich::C16 => {
                        if !inv.check && ab != fe.bytes {
                            return Verdict::fail(
                                "C16:file-content-differs-from-library",
                                format!("{ctx}: {p} [{}]: library gives {:?}, file holds {:?}", fe.why, syn::clip(&String::from_utf8_lossy(&fe.bytes), 160), syn::clip(&String::from_utf8_lossy(&ab), 160)),
                            );
                        }
                    }
                }
            }
            // ---- stdout
            match self.which {
                CliWhich::C14 => {
                    if String::from_utf8_lossy(&out.stdout).contains("MARK") {
                        return Verdict::fail("C14:document-text-on-stdout", format!("{ctx}: check mode printed document text: {:?}", syn::clip(&String::from_utf8_lossy(&out.stdout), 200)));
                    }
                }
                CliWhich::C16 => {
                    if let Some(want) = &ex.stdout {
                        if &out.stdout != want {
                            let a = String::from_utf8_lossy(want).to_string();
                            let b = String::from_utf8_lossy(&out.stdout).to_string();
                            let la: Vec<&str> = a.split('\n').collect();
                            let lb: Vec<&str> = b.split('\n').collect();
                            let i = la.iter().zip(lb.iter()).position(|(x, y)| x != y).unwrap_or(la.len().min(lb.len()));
                            return Verdict::fail(
                                "C16:stdout-differs-from-library",
                                format!("{ctx}: first differing line {}: library {:?}, CLI {:?} ({} vs {} bytes)", i + 1, la.get(i), lb.get(i), want.len(), out.stdout.len()),
                            );
                        }
                    }
                }
                CliWhich::C15 => {}
            }
            // ---- exit status
            if matches!(self.which, CliWhich::C14 | CliWhich::C15) && !ex.exit_ok.contains(&code) {
                return Verdict::fail(
                    format!("{}:exit-status:{}-instead-of-{}", self.id(), code, ex.exit_ok[0]),
                    format!("{ctx}: exit status {code}, expected {:?} ({}); stderr: {}", ex.exit_ok, ex.why_exit, syn::clip(&String::from_utf8_lossy(&out.stderr), 200)),
                );
            }
            // ---- bookkeeping
            for kd in &ex.kinds {
                st.label(&format!("input:{kd}"));
            }
            st.label_if(k > 0, "history:later-invocation");
            nontrivial |= match self.which {
                CliWhich::C14 => ex.kinds.len() >= 2,
                CliWhich::C15 => ex.rewritten >= 1 && ex.untouched_other >= 1,
                CliWhich::C16 => {
                    let multi = matches!(&inv.shape, Shape::Files(v) if v.len() > 1);
                    let nondefault = inv.column.is_some_and(|c| c != 80) || inv.tab.is_some_and(|t| t != 2) || inv.reorder;
                    (multi || nondefault) && (ex.stdout.as_ref().is_some_and(|s| !s.is_empty()) || ex.rewritten > 0)
                }
            };
        }
        Verdict::Pass { nontrivial }
    }

    fn reduce(&self, c: &CliCase, _env: &Env, fails: &mut dyn FnMut(&CliCase) -> bool) -> CliCase {
        let mut best = c.clone();
        // fewer invocations
        let mut i = 0;
        while best.history.len() > 1 && i < best.history.len() {
            let mut cand = best.clone();
            cand.history.remove(i);
            if fails(&cand) {
                best = cand;
            } else {
                i += 1;
            }
        }
        // fewer entries
        let mut i = 0;
        while i < best.tree.entries.len() {
            let mut cand = best.clone();
            let removed = cand.tree.entries.remove(i);
            // keep children consistent: drop entries below a removed directory
            if matches!(removed.kind, Kind::Dir) {
                let pre = format!("{}/", removed.path);
                cand.tree.entries.retain(|e| !e.path.starts_with(&pre));
            }
            if fails(&cand) {
                best = cand;
            } else {
                i += 1;
            }
        }
        // plain options
        for k in 0..best.history.len() {
            let mut cand = best.clone();
            cand.history[k].verbosity = 0;
            cand.history[k].flags_last = false;
            cand.history[k].addressing = 0;
            if fails(&cand) {
                best = cand;
            }
            let mut cand = best.clone();
            cand.history[k].column = None;
            cand.history[k].tab = None;
            cand.history[k].reorder = false;
            if fails(&cand) {
                best = cand;
            }
            if let Shape::Files(fs) = &best.history[k].shape {
                let mut j = 0;
                let mut cur = fs.clone();
                while cur.len() > 1 && j < cur.len() {
                    let mut v = cur.clone();
                    v.remove(j);
                    let mut cand = best.clone();
                    cand.history[k].shape = Shape::Files(v.clone());
                    if fails(&cand) {
                        best = cand;
                        cur = v;
                    } else {
                        j += 1;
                    }
                }
            }
        }
        best
    }

    fn sample(&self, c: &CliCase) -> Value {
        json!({
            "root": c.tree.root_name,
            "entries": c.tree.entries.iter().map(|e| match &e.kind {
                Kind::Dir => format!("{}/", e.path),
                Kind::DanglingSymlink => format!("{} -> (dangling)", e.path),
                Kind::Symlink { target } => format!("{} -> {}", e.path, target),
                Kind::File { content, immutable } => format!("{}{} [{} bytes]", e.path, if *immutable { " (immutable)" } else { "" }, content.bytes().len()),
            }).collect::<Vec<_>>(),
            "history": c.history.iter().map(|i| format!("{:?} check={} inplace={} column={:?} tab={:?} reorder={} addressing={}", i.shape, i.check, i.inplace, i.column, i.tab, i.reorder, i.addressing)).map(|s| syn::clip(&s, 200)).collect::<Vec<_>>(),
        })
    }
}
