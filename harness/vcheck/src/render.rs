//! C02: formatting never changes what the document compiles to (real compiler, rasterised pages).

use serde_json::{json, Value};
use vlib::api::{Cfg, Fmt};
use vlib::engine::{Env, Prop, Stats, Tier, Verdict};
use vlib::gen::{self, config, grammar::Focus};
use vlib::props::SrcCase;
use vlib::reduce;
use vlib::syn;
use vlib::tape::Tape;

pub struct C02;

const WIDTHS: [usize; 7] = [0, 1, 20, 40, 57, 80, 120];

impl C02 {
    fn items(env: &Env) -> Vec<usize> {
        // whole files up to 30 kB and all snippets
        env.corpus.wf.iter().copied().filter(|&i| env.corpus.items[i].text.len() <= 30_000).collect()
    }
    fn grid(tier: Tier) -> Vec<(usize, usize)> {
        match tier {
            Tier::Quick => vec![(0, 3), (20, 4), (57, 1), (93, 5)],
            Tier::Thorough => {
                let mut v = vec![];
                for w in [0, 1, 13, 20, 33, 40, 57, 72, 80, 93, 120, 200] {
                    for t in [1, 2, 3, 4, 8] {
                        v.push((w, t));
                    }
                }
                v
            }
        }
    }
}

impl Prop for C02 {
    type Case = SrcCase;

    fn id(&self) -> &'static str {
        "C02"
    }

    fn rule(&self) -> String {
        "Cases = (a) deterministic sweep: every well-formed corpus file (<= 30 kB) and paragraph snippet x a (width, indent) grid the consistency tests never use; (b) generated: G1s typed program generator (bindings, closures, map/filter/fold chains, dict/string methods, control flow, destructuring, set/show rules, context, tables/grids, headings with labels and refs, math; every bound value shown with repr so a changed value changes pixels; layout-sensitive syntax on purpose: `else` on the next line, leading-dot chains and operators across lines, `f(x)[y]`, `#x.y` followed by `.`, `a#[ b ]c`, `*a *`, list nesting), G2 mutants of G1s programs and of corpus snippets (blanks respelled, comments inserted). Oracle: both texts are compiled with typst::compile::<PagedDocument> in an in-memory world (one main file, embedded fonts, fixed date) and rasterised with typst_render: same page count, identical pixmaps (hash of pixel data + dimensions), same document info; if the original fails the formatted text must fail with the same diagnostic messages; success/failure never flips. Non-trivial: the original compiles, renders >= 1 non-blank page and fmt(s) != s.".into()
    }

    fn assumptions(&self) -> Vec<String> {
        vec![
            "typst 0.13.1 with the embedded typst-assets fonts; every file other than main.typ is NotFound for both sides alike (no packages, no network)".into(),
            "pages are compared through a 64-bit hash of the pixmap (scale 1 quick / 2 thorough) within one process".into(),
            "differences invisible in pixels, repr output and document info (e.g. source spans) are not part of the property".into(),
        ]
    }

    fn sweep_len(&self, env: &Env) -> usize {
        Self::items(env).len() * Self::grid(env.tier).len()
    }

    fn sweep_case(&self, i: usize, env: &Env) -> Option<SrcCase> {
        let g = Self::grid(env.tier);
        let items = Self::items(env);
        let it = &env.corpus.items[items[i / g.len()]];
        let (w, t) = g[i % g.len()];
        Some(SrcCase { src: it.text.clone(), cfg: Cfg { width: w, tab: t, reorder: false, blank: 2 }, range: None, origin: if it.whole { "G0f".into() } else { "G0s".into() } })
    }

    fn gen_cases(&self, tier: Tier) -> u64 {
        match tier {
            Tier::Quick => 240_000,
            Tier::Thorough => 1_500_000,
        }
    }

    fn decode(&self, t: &mut Tape, env: &Env, _st: &mut Stats) -> Option<SrcCase> {
        let (src, origin) = match t.weighted(&[8, 5, 3, 1]) {
            0 => (gen::programs::program(t), "G1s"),
            1 => {
                let p = gen::programs::program(t);
                (gen::mutate::layout_only(t, &p, env.corpus), "G1s+G2(layout)")
            }
            2 => {
                let c = env.corpus;
                let s = &c.items[t.pick(&c.wf_snips)].text;
                (gen::mutate::mutate(t, s, env.corpus), "G0s+G2")
            }
            _ => (gen::grammar::document(t, Focus::Any), "G1"),
        };
        if src.len() > 30_000 || !syn::wf(&src) {
            return None;
        }
        let tab = config::tab(t);
        let width = if t.chance(60) { config::targeted_width(t, env.f, &src, tab).unwrap_or(40) } else { t.pick(&WIDTHS) };
        // a document compiles to the same result under *every* configuration: import reordering and the
        // blank-line bound are part of it
        let reorder = t.chance(48);
        let blank = config::blank(t);
        Some(SrcCase { src, cfg: Cfg { width, tab, reorder, blank }, range: None, origin: origin.to_string() })
    }

    fn excluded(&self, c: &SrcCase, env: &Env) -> Option<String> {
        if env.known.active("C02").is_empty() {
            return None;
        }
        let root = syn::parse(&c.src);
        env.known.excluded("C02", &c.src, &root, Some(&c.cfg))
    }

    fn excluded_up_front(&self, c: &SrcCase, env: &Env) -> Option<String> {
        // R1 and R3: precise triggers, and the program generator writes `#(1). Next` on purpose
        let root = syn::parse(&c.src);
        let trig = vlib::known::triggers(&c.src, &root);
        ["R1", "R3"].iter().find(|id| env.known.active("C02").iter().any(|x| x == *id) && trig.contains(id)).map(|id| id.to_string())
    }

    fn check(&self, c: &SrcCase, env: &Env, st: &mut Stats) -> Verdict {
        if !syn::wf(&c.src) {
            return Verdict::skip("input-not-well-formed");
        }
        let out = match env.f.format(&c.src, &c.cfg) {
            Fmt::Ok(o) => o,
            _ => return Verdict::skip("deferred_to_C05:panic-or-refusal"),
        };
        if !syn::wf(&out) {
            return Verdict::skip("deferred_to_C04:output-has-syntax-errors");
        }
        st.label(&format!("origin:{}", c.origin));
        if out == c.src {
            st.label("unchanged-by-formatting");
            return Verdict::Pass { nontrivial: false };
        }
        // Typst itself aborts (failed allocation, not a panic) on absurd numbers -- `columns: 4444444444444`
        // makes it allocate that many tracks --, which no in-process harness survives: such documents are
        // left to C01 (counted)
        let huge = |text: &str| {
            syn::any_node(&syn::parse(text), &mut |n| {
                matches!(n.kind(), syn::K::Int | syn::K::Float | syn::K::Numeric) && {
                    let digits: String = n.text().chars().take_while(|c| c.is_ascii_digit()).collect();
                    digits.trim_start_matches('0').len() > 5
                        || (n.kind() == syn::K::Float && (n.text().contains('e') || n.text().contains('E')))
                        || (n.kind() == syn::K::Numeric && n.text().trim_end_matches(|c: char| c.is_ascii_alphabetic() || c == '%').contains(['e', 'E']))
                }
            })
        };
        if huge(&c.src) || huge(&out) {
            return Verdict::skip("huge-number-literal(typst-may-abort)");
        }
        let scale = match env.tier {
            Tier::Quick => 1.0,
            Tier::Thorough => 2.0,
        };
        // the renderer itself may panic on extreme documents (glyph rasterisation overflow): that is
        // neither side's fault and not comparable
        let ra = std::panic::catch_unwind(|| vrender::render(&c.src, scale));
        let rb = std::panic::catch_unwind(|| vrender::render(&out, scale));
        let (Ok(a), Ok(b)) = (ra, rb) else { return Verdict::skip("typst-renderer-panicked") };
        static N: std::sync::atomic::AtomicUsize = std::sync::atomic::AtomicUsize::new(0);
        if N.fetch_add(1, std::sync::atomic::Ordering::Relaxed) % 64 == 63 {
            vrender::evict(4);
        }
        match (a, b) {
            (Ok(ra), Ok(rb)) => {
                st.label("compiles");
                st.label_if(ra.pages.len() > 1, "multi-page");
                if ra.pages.len() != rb.pages.len() {
                    return Verdict::fail("C02:page-count", format!("{} pages before, {} after formatting", ra.pages.len(), rb.pages.len()));
                }
                if let Some(i) = (0..ra.pages.len()).find(|&i| ra.pages[i] != rb.pages[i]) {
                    return Verdict::fail("C02:pixels-differ", format!("page {} of {} renders differently after formatting", i + 1, ra.pages.len()));
                }
                if ra.info != rb.info {
                    return Verdict::fail("C02:document-info", format!("document info {:?} -> {:?}", ra.info, rb.info));
                }
                Verdict::Pass { nontrivial: ra.non_blank }
            }
            (Err(ea), Err(eb)) => {
                st.label("both-fail-to-compile");
                if ea != eb {
                    return Verdict::fail("C02:diagnostics-differ", format!("diagnostics before: {:?}; after: {:?}", syn::clip(&format!("{ea:?}"), 200), syn::clip(&format!("{eb:?}"), 200)));
                }
                Verdict::Pass { nontrivial: false }
            }
            (Ok(_), Err(e)) => Verdict::fail("C02:compiles->fails", format!("the original compiles, the formatted text fails: {}", syn::clip(&format!("{e:?}"), 200))),
            (Err(e), Ok(_)) => Verdict::fail("C02:fails->compiles", format!("the original fails ({}), the formatted text compiles", syn::clip(&format!("{e:?}"), 200))),
        }
    }

    fn reduce(&self, c: &SrcCase, _env: &Env, fails: &mut dyn FnMut(&SrcCase) -> bool) -> SrcCase {
        let mut best = c.clone();
        for (w, t) in [(80, 2), (40, 2), (0, 2), (c.cfg.width, 2)] {
            let cand = SrcCase { cfg: Cfg { width: w, tab: t, reorder: false, blank: 2 }, ..best.clone() };
            if fails(&cand) {
                best = cand;
                break;
            }
        }
        let proto = best.clone();
        best.src = reduce::reduce_text(&best.src, &mut |s: &str| syn::wf(s) && fails(&SrcCase { src: s.to_string(), ..proto.clone() }));
        best
    }

    fn sample(&self, c: &SrcCase) -> Value {
        json!({"src": syn::clip(&c.src, 500), "width": c.cfg.width, "tab": c.cfg.tab, "origin": c.origin})
    }
}
