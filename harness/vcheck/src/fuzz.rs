//! Thorough tier, second stage: coverage-guided fuzzing (libFuzzer, cargo-fuzz targets in
//! harness/fuzz) of the same case space with the same oracles. The supervisor starts one process per
//! core (own seeds, shared corpus directory), collects the violation a target wrote before aborting,
//! shrinks it with the property's own reducer and reports coverage statistics for the evidence.

use std::path::{Path, PathBuf};
use std::process::{Command, Stdio};

use serde_json::{json, Value};
use vlib::corpus::Corpus;
use vlib::syn;

pub const FUZZABLE: &[&str] = &["C01", "C03", "C04", "C05", "C06", "C07", "C08", "C09", "C10", "C11", "C12", "C13", "C19"];

pub struct FuzzOutcome {
    /// per target statistics for the evidence
    pub stats: Value,
    /// first violation written by a target (the JSON the target wrote)
    pub violation: Option<Value>,
    /// crash / oom / timeout artefacts that are not oracle violations: (kind, path)
    pub artefacts: Vec<(String, PathBuf)>,
    pub execs: u64,
}

fn bin_dir(root: &Path) -> PathBuf {
    root.join("harness/target/x86_64-unknown-linux-gnu/release")
}

pub fn available(root: &Path) -> bool {
    bin_dir(root).join("tape").exists() && bin_dir(root).join("src").exists()
}

const DICT: &[&str] = &[
    "#let ", "#set ", "#show ", "#import ", "#include ", "#if ", " else ", "#for ", " in ", "#while ", "#context ", "=>", "..", "/* c */", "// c\n",
    "/* @typstyle off */", "// @typstyle off\n", "$ ", " $", "```", "`", "\\\n", "\\ ", "- ", "+ ", "/ t: ", "= ", "<l>", "@l", "#[", "]", "#{", "}", "#(",
    ")", "(:)", ", ", ";", ": ", " as ", "not ", " and ", " or ", "none", "auto", "true", "1.5em", "0x1F", "\"s\"", "\"a\nb\"", "_", "^", "&", "'", "√", "mat(", "table(columns: 2,",
    "\r\n", "\u{2028}", "\u{85}", "\t", "*", "a.b.c(", ".map(", "x => ", "(a, b) = ", "f(..r)", "[a][b]",
];

fn splitmix(x: &mut u64) -> u64 {
    *x = x.wrapping_add(0x9e3779b97f4a7c15);
    let mut z = *x;
    z = (z ^ (z >> 30)).wrapping_mul(0xbf58476d1ce4e5b9);
    z = (z ^ (z >> 27)).wrapping_mul(0x94d049bb133111eb);
    z ^ (z >> 31)
}

fn seed_corpus(target: &str, id: &str, dir: &Path, corpus: &Corpus, root: &Path, seed: u64) {
    std::fs::create_dir_all(dir).ok();
    let mut rng = seed ^ 0xfeed;
    if target == "tape" {
        // a few random tapes: libFuzzer ramps up slowly from an empty corpus
        for k in 0..48 {
            let len = 64 + (splitmix(&mut rng) % 700) as usize;
            let bytes: Vec<u8> = (0..len).map(|_| splitmix(&mut rng) as u8).collect();
            std::fs::write(dir.join(format!("seed-{k:02}")), bytes).ok();
        }
        return;
    }
    let with_range = id == "C13";
    let mut k = 0;
    for it in &corpus.items {
        if it.text.len() > 3000 || (it.whole && it.text.len() > 1500) {
            continue;
        }
        let w = splitmix(&mut rng) as u8;
        let t = splitmix(&mut rng) as u8;
        let r = (splitmix(&mut rng) as u16, splitmix(&mut rng) as u16);
        let bytes = vlib::fuzzdec::encode_src(&it.text, w, t, (splitmix(&mut rng) as u8) & 1, with_range, r);
        std::fs::write(dir.join(format!("g0-{k:04}")), bytes).ok();
        k += 1;
    }
    // the committed regression inputs of this property
    if let Ok(rd) = std::fs::read_dir(root.join("regress").join(id)) {
        for e in rd.flatten() {
            let Ok(b) = std::fs::read(e.path()) else { continue };
            let Ok(v) = serde_json::from_slice::<Value>(&b) else { continue };
            if let Some(src) = v["case"]["src"].as_str() {
                let bytes = vlib::fuzzdec::encode_src(src, 0, 1, 0, with_range, (0, u16::MAX));
                std::fs::write(dir.join(format!("regress-{k:04}")), bytes).ok();
                k += 1;
            }
        }
    }
}

/// last `cov: N ft: M corp: K` triple of a libFuzzer log
fn parse_log(text: &str) -> (u64, u64, u64, u64) {
    let mut cov = 0;
    let mut ft = 0;
    let mut corp = 0;
    let mut execs = 0;
    for line in text.lines() {
        if let Some(rest) = line.strip_prefix("stat::number_of_executed_units:") {
            execs = rest.trim().parse().unwrap_or(0);
        }
        if line.starts_with('#') && line.contains(" cov: ") {
            let toks: Vec<&str> = line.split_whitespace().collect();
            for w in toks.windows(2) {
                match w[0] {
                    "cov:" => cov = w[1].parse().unwrap_or(cov),
                    "ft:" => ft = w[1].parse().unwrap_or(ft),
                    "corp:" => corp = w[1].split('/').next().and_then(|x| x.parse().ok()).unwrap_or(corp),
                    _ => {}
                }
            }
            if execs == 0 {
                // no final stats (the process aborted): the running counter
                if let Some(n) = toks.first().and_then(|t| t.trim_start_matches('#').parse::<u64>().ok()) {
                    execs = execs.max(n);
                }
            }
        }
    }
    (execs, cov, ft, corp)
}

pub fn campaign(root: &Path, id: &str, seed: u64, nproc: usize, runs: u64, outdir: &Path, corpus: &Corpus, cap_s: u64) -> FuzzOutcome {
    let mut out = FuzzOutcome { stats: json!({}), violation: None, artefacts: vec![], execs: 0 };
    let targets: &[&str] = if id == "C07" { &["tape"] } else { &["tape", "src"] };
    let mut stats = serde_json::Map::new();
    for target in targets {
        let tdir = outdir.join(format!("fuzz-{target}"));
        let cdir = tdir.join("corpus");
        let odir = tdir.join("out");
        std::fs::create_dir_all(&odir).ok();
        seed_corpus(target, id, &cdir, corpus, root, seed);
        let dict = tdir.join("dict.txt");
        let mut d = String::new();
        for w in DICT {
            d.push('"');
            for b in w.bytes() {
                match b {
                    b'"' => d.push_str("\\\""),
                    b'\\' => d.push_str("\\\\"),
                    0x20..=0x7e => d.push(b as char),
                    _ => d.push_str(&format!("\\x{b:02X}")),
                }
            }
            d.push_str("\"\n");
        }
        std::fs::write(&dict, d).ok();
        let bin = bin_dir(root).join(target);
        let t0 = std::time::Instant::now();
        let mut children = vec![];
        for i in 0..nproc {
            let log = std::fs::File::create(odir.join(format!("log-{i}.txt"))).ok();
            let mut cmd = Command::new(&bin);
            cmd.arg(format!("-seed={}", (seed.wrapping_mul(1000) + i as u64 + 1) & 0x7fff_ffff))
                .arg(format!("-runs={runs}"))
                .arg(format!("-max_len={}", if *target == "tape" { 1024 } else { 2048 }))
                .arg("-len_control=0")
                .arg("-timeout=60")
                .arg("-rss_limit_mb=6000")
                .arg("-print_final_stats=1")
                .arg("-reload=1")
                .arg(format!("-artifact_prefix={}/", odir.display()))
                .arg(&cdir)
                .env("VERIF_ROOT", root)
                .env("VERIF_PROP", id)
                .env("VERIF_FUZZ_OUT", &odir)
                .current_dir(&odir)
                .stdin(Stdio::null())
                .stdout(Stdio::null());
            if *target == "src" {
                cmd.arg(format!("-dict={}", dict.display()));
            }
            match log {
                Some(f) => {
                    cmd.stderr(Stdio::from(f));
                }
                None => {
                    cmd.stderr(Stdio::null());
                }
            }
            if let Ok(c) = cmd.spawn() {
                children.push(c);
            }
        }
        let mut timed_out = false;
        loop {
            let mut alive = 0;
            for c in children.iter_mut() {
                if let Ok(None) = c.try_wait() {
                    alive += 1;
                }
            }
            if alive == 0 {
                break;
            }
            if t0.elapsed().as_secs() > cap_s {
                timed_out = true;
                for c in children.iter_mut() {
                    let _ = c.kill();
                    let _ = c.wait();
                }
                break;
            }
            std::thread::sleep(std::time::Duration::from_millis(200));
        }
        // statistics
        let (mut execs, mut cov, mut ft, mut corp) = (0u64, 0u64, 0u64, 0u64);
        for i in 0..nproc {
            if let Ok(text) = std::fs::read_to_string(odir.join(format!("log-{i}.txt"))) {
                let (e, c, f, k) = parse_log(&text);
                execs += e;
                cov = cov.max(c);
                ft = ft.max(f);
                corp = corp.max(k);
            }
        }
        let corpus_files = std::fs::read_dir(&cdir).map(|r| r.count()).unwrap_or(0);
        let mut crashes = 0;
        if let Ok(rd) = std::fs::read_dir(&odir) {
            let mut names: Vec<PathBuf> = rd.flatten().map(|e| e.path()).collect();
            names.sort();
            for p in names {
                let name = p.file_name().and_then(|n| n.to_str()).unwrap_or("").to_string();
                if name.starts_with("viol-") {
                    if out.violation.is_none() {
                        out.violation = std::fs::read(&p).ok().and_then(|b| serde_json::from_slice(&b).ok());
                    }
                } else if let Some(kind) = ["crash-", "oom-", "timeout-", "leak-", "slow-unit-"].iter().find(|k| name.starts_with(**k)) {
                    crashes += 1;
                    out.artefacts.push((format!("{target}:{}", kind.trim_end_matches('-')), p));
                }
            }
        }
        out.execs += execs;
        stats.insert(
            target.to_string(),
            json!({
                "processes": nproc, "runs_per_process": runs, "executions": execs, "coverage_edges": cov, "features": ft,
                "corpus_units_in_memory": corp, "corpus_files": corpus_files, "artefacts": crashes, "wall_s": t0.elapsed().as_secs_f64(),
                "stopped_by_time_cap": timed_out,
            }),
        );
        if out.violation.is_some() {
            break;
        }
    }
    out.stats = Value::Object(stats);
    let _ = syn::fnv64(b"");
    out
}
