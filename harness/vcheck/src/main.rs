//! vcheck: supervisor / worker / replay front-end of the verification harness.

mod cli;
mod fmtimpl;
mod fuzz;
mod pure;
mod render;

use std::io::Read;
use std::path::{Path, PathBuf};

use serde_json::{json, Value};
use vlib::api::{Cfg, Fmt, Formatter};
use vlib::corpus::Corpus;
use vlib::engine::{self, Env, Prop, Stats, Tier, Verdict};
use vlib::known::Known;
use vlib::props::{SrcProp, Which};
use vlib::props2::{C05, C18};
use vlib::syn;

/// Where evidence/ and replays/ are written: VERIF_OUT (the mutant self-test redirects them) or the root.
fn out_dir() -> PathBuf {
    std::env::var("VERIF_OUT").map(PathBuf::from).unwrap_or_else(|_| root_dir())
}

/// Remove a scratch directory of a run. Workers that were killed (after a violation, or on a timeout)
/// may have left files with the immutable flag behind (C15's write-fault injection): clear it first.
fn remove_scratch(dir: &Path) {
    if !dir.exists() {
        return;
    }
    if std::fs::remove_dir_all(dir).is_err() {
        let _ = std::process::Command::new("chattr")
            .arg("-R")
            .arg("-i")
            .arg(dir)
            .stdout(std::process::Stdio::null())
            .stderr(std::process::Stdio::null())
            .status();
        let _ = std::fs::remove_dir_all(dir);
    }
}

fn root_dir() -> PathBuf {
    if let Ok(r) = std::env::var("VERIF_ROOT") {
        return PathBuf::from(r);
    }
    // <root>/harness/target/release/vcheck
    let exe = std::env::current_exe().expect("exe");
    exe.ancestors().nth(4).map(|p| p.to_path_buf()).unwrap_or_else(|| PathBuf::from("/verif"))
}

trait Visitor {
    type R;
    fn visit<P: Prop>(self, p: &P) -> Self::R;
}

fn dispatch<V: Visitor>(id: &str, v: V) -> Option<V::R> {
    Some(match id {
        "C01" => v.visit(&SrcProp { which: Which::C01 }),
        "C02" => v.visit(&render::C02),
        "C03" => v.visit(&SrcProp { which: Which::C03 }),
        "C04" => v.visit(&SrcProp { which: Which::C04 }),
        "C05" => v.visit(&C05),
        "C06" => v.visit(&SrcProp { which: Which::C06 }),
        "C07" => v.visit(&SrcProp { which: Which::C07 }),
        "C08" => v.visit(&SrcProp { which: Which::C08 }),
        "C09" => v.visit(&SrcProp { which: Which::C09 }),
        "C10" => v.visit(&SrcProp { which: Which::C10 }),
        "C11" => v.visit(&SrcProp { which: Which::C11 }),
        "C12" => v.visit(&SrcProp { which: Which::C12 }),
        "C13" => v.visit(&SrcProp { which: Which::C13 }),
        "C14" => v.visit(&cli::CliProp { which: cli::CliWhich::C14 }),
        "C15" => v.visit(&cli::CliProp { which: cli::CliWhich::C15 }),
        "C16" => v.visit(&cli::CliProp { which: cli::CliWhich::C16 }),
        "C17" => v.visit(&pure::C17),
        "C18" => v.visit(&C18),
        "C19" => v.visit(&SrcProp { which: Which::C19 }),
        _ => return None,
    })
}

struct Ctx {
    root: PathBuf,
    corpus: Corpus,
    known: Known,
    real: fmtimpl::Real,
    exe: PathBuf,
    cli: Option<PathBuf>,
}

impl Ctx {
    fn new(id: &str) -> Ctx {
        let root = root_dir();
        let corpus = Corpus::load(&root.join("corpus"));
        let known = Known::load(&root.join("KNOWN_FINDINGS.txt"));
        let stack = if id == "C05" { Some(8 << 20) } else { None };
        let cli = std::env::var("VERIF_CLI").map(PathBuf::from).unwrap_or_else(|_| root.join("harness/target-cli/release/typstyle"));
        Ctx {
            root,
            corpus,
            known,
            real: fmtimpl::Real { stack },
            exe: std::env::current_exe().expect("exe"),
            cli: if cli.exists() { Some(cli) } else { None },
        }
    }
    fn env(&self, tier: Tier, seed: u64, strict: bool, scratch: PathBuf) -> Env<'_> {
        Env {
            f: &self.real,
            corpus: &self.corpus,
            tier,
            known: &self.known,
            strict,
            seed,
            scratch,
            cli: self.cli.clone(),
            exe: self.exe.clone(),
        }
    }
}

// ------------------------------------------------------------------------------------ worker

struct WorkerV<'a> {
    env: &'a Env<'a>,
    w: usize,
    nw: usize,
    outdir: &'a Path,
}

impl Visitor for WorkerV<'_> {
    type R = ();
    fn visit<P: Prop>(self, p: &P) {
        let res = engine::run_worker(p, self.env, self.w, self.nw, self.outdir);
        let path = self.outdir.join(format!("w{}.json", self.w));
        std::fs::write(&path, serde_json::to_vec(&res).expect("serialize")).expect("write result");
    }
}

// ------------------------------------------------------------------------------------ replay

struct ReplayV<'a> {
    env: &'a Env<'a>,
    case: &'a Value,
}

impl Visitor for ReplayV<'_> {
    type R = Result<Verdict, String>;
    fn visit<P: Prop>(self, p: &P) -> Self::R {
        let c: P::Case = serde_json::from_value(self.case.clone()).map_err(|e| format!("bad case: {e}"))?;
        let mut st = Stats::default();
        Ok(p.check(&c, self.env, &mut st))
    }
}

/// shrink a case found by a fuzz target with the property's own reducer
struct ShrinkV<'a> {
    env: &'a Env<'a>,
    case: &'a Value,
    origin: &'a str,
}

impl Visitor for ShrinkV<'_> {
    type R = Option<engine::Violation>;
    fn visit<P: Prop>(self, p: &P) -> Self::R {
        let c: P::Case = serde_json::from_value(self.case.clone()).ok()?;
        let mut st = Stats::default();
        match p.check(&c, self.env, &mut st) {
            Verdict::Fail(f) => Some(engine::shrink_and_report(p, c, f, self.env, self.origin)),
            _ => None,
        }
    }
}

/// decode a libFuzzer artefact of the `tape` target into a case (JSON)
struct TapeDecodeV<'a> {
    env: &'a Env<'a>,
    bytes: &'a [u8],
}

impl Visitor for TapeDecodeV<'_> {
    type R = Option<Value>;
    fn visit<P: Prop>(self, p: &P) -> Self::R {
        let mut t = vlib::tape::Tape::new(self.bytes);
        let mut st = Stats::default();
        let c = p.decode(&mut t, self.env, &mut st)?;
        serde_json::to_value(&c).ok()
    }
}

struct MetaV;
impl Visitor for MetaV {
    type R = (String, Vec<String>, usize);
    fn visit<P: Prop>(self, p: &P) -> Self::R {
        (p.rule(), p.assumptions(), p.workers())
    }
}

/// exit code: 0 pass, 1 violation, 2 not evaluable
fn replay_file(path: &Path, quiet: bool) -> i32 {
    let Ok(bytes) = std::fs::read(path) else {
        eprintln!("cannot read {}", path.display());
        return 2;
    };
    let Ok(v) = serde_json::from_slice::<Value>(&bytes) else {
        eprintln!("not JSON: {}", path.display());
        return 2;
    };
    let id = v["property"].as_str().unwrap_or("").to_string();
    let ctx = Ctx::new(&id);
    let scratch = ctx.root.join(format!("harness/target/scratch/replay-{}", std::process::id()));
    let env = ctx.env(Tier::Quick, 0, true, scratch.clone());
    let r = dispatch(&id, ReplayV { env: &env, case: &v["case"] });
    remove_scratch(&scratch);
    match r {
        None => {
            eprintln!("unknown property {id}");
            2
        }
        Some(Err(e)) => {
            eprintln!("{e}");
            2
        }
        Some(Ok(Verdict::Fail(f))) => {
            if !quiet {
                println!("FAIL sig={} {}", f.sig, f.detail);
                println!("VIOLATION property={id} replay={}", path.display());
            }
            1
        }
        Some(Ok(Verdict::Pass { .. })) => {
            if !quiet {
                println!("PASS property={id} {}", path.display());
            }
            0
        }
        Some(Ok(Verdict::Skip(why))) => {
            if !quiet {
                println!("SKIP property={id} ({why}) {}", path.display());
            }
            0
        }
    }
}

// ------------------------------------------------------------------------------------ supervisor

fn run(id: &str, tier: Tier) -> i32 {
    let t0 = std::time::Instant::now();
    let seed: u64 = std::env::var("VERIF_SEED").ok().and_then(|s| s.parse().ok()).unwrap_or(0);
    let ctx = Ctx::new(id);
    let Some((rule, assumptions, workers)) = dispatch(id, MetaV) else {
        eprintln!("unknown property {id}");
        return 2;
    };
    let nw: usize = std::env::var("VERIF_WORKERS").ok().and_then(|s| s.parse().ok()).unwrap_or(workers);
    let exe = ctx.exe.clone();
    let mut violations: Vec<(String, String)> = vec![]; // (replay path, text)
    let mut known_lines: Vec<String> = vec![];

    // 1. regression corpus: every committed case is replayed in its own process
    let mut regress_replayed = 0u64;
    let rdir = ctx.root.join("regress").join(id);
    let mut files: Vec<PathBuf> = std::fs::read_dir(&rdir)
        .map(|rd| rd.flatten().map(|e| e.path()).filter(|p| p.extension().is_some_and(|x| x == "json")).collect())
        .unwrap_or_default();
    files.sort();
    if std::env::var("VERIF_NO_REGRESS").is_ok() {
        // self-test only: measure what the generators find on their own
        files.clear();
    }
    for f in &files {
        regress_replayed += 1;
        let v: Value = std::fs::read(f).ok().and_then(|b| serde_json::from_slice(&b).ok()).unwrap_or(Value::Null);
        let expect = v["expect"].as_str().unwrap_or("pass").to_string();
        let out = std::process::Command::new(&exe).arg("replay").arg(f).arg("--quiet").output();
        let code = match &out {
            Ok(o) => o.status.code(),
            Err(_) => Some(2),
        };
        let rel = f.strip_prefix(&ctx.root).unwrap_or(f).display().to_string();
        let failed = match code {
            Some(0) => false,
            Some(1) => true,
            Some(_) => {
                eprintln!("regress case {rel} could not be evaluated");
                false
            }
            // killed by a signal: a crash. Only C05 owns crashes.
            None => id == "C05",
        };
        if let Some(fid) = expect.strip_prefix("known:") {
            let listed = ctx.known.entries.iter().find(|e| e.property == id && e.id == fid);
            if failed {
                match listed {
                    Some(e) => {
                        let line = format!("KNOWN-FINDING: property={id} {} [{}; replay={}]", e.what, e.id, rel);
                        println!("{line}");
                        known_lines.push(line);
                    }
                    None => violations.push((rel.clone(), format!("regress case of unlisted finding {fid} fails"))),
                }
            }
        } else if failed {
            violations.push((rel.clone(), "committed regression case fails".to_string()));
        }
    }

    // 2. exploration
    // (scratch directories of runs that were killed from outside may be left behind: drop old ones)
    if let Ok(rd) = std::fs::read_dir(ctx.root.join("harness/target/scratch")) {
        for e in rd.flatten() {
            let old = e.metadata().and_then(|m| m.modified()).ok().and_then(|t| t.elapsed().ok()).is_some_and(|d| d.as_secs() > 8 * 3600);
            if old {
                remove_scratch(&e.path());
            }
        }
    }
    let outdir = ctx.root.join(format!("harness/target/scratch/{id}-{}-{}", tier.name(), std::process::id()));
    remove_scratch(&outdir);
    let timeout_s = match tier {
        Tier::Quick => 1500,
        Tier::Thorough => 6 * 3600,
    };
    let mut out = engine::supervise(&exe, id, tier, seed, nw, &outdir, timeout_s);

    // 3. crashed workers
    let mut inconclusive = false;
    for (w, status, infl) in &out.crashed {
        if status == "stalled" {
            // one case did not finish for minutes. Re-run it alone, in a fresh process, with a generous
            // limit (typical cases take milliseconds): only if it does not finish there either is it a hang
            let Some(case) = infl else {
                inconclusive = true;
                continue;
            };
            if out.violation.is_some() {
                // one confirmed hang is enough (each confirmation costs minutes)
                continue;
            }
            let rp = outdir.join(format!("stalled-{w}.json"));
            std::fs::create_dir_all(&outdir).ok();
            std::fs::write(&rp, serde_json::to_vec(&json!({"property": id, "case": case, "expect": "pass"})).unwrap_or_default()).ok();
            let t1 = std::time::Instant::now();
            let alone = std::process::Command::new(&exe).arg("replay").arg(&rp).arg("--quiet").spawn().ok().map(|mut child| loop {
                match child.try_wait() {
                    Ok(Some(s)) => break Some(s),
                    Ok(None) if t1.elapsed().as_secs() > 120 => {
                        let _ = child.kill();
                        let _ = child.wait();
                        break None;
                    }
                    Ok(None) => std::thread::sleep(std::time::Duration::from_millis(100)),
                    Err(_) => break None,
                }
            });
            match alone {
                Some(None) => {
                    // still running after 120 s alone
                    if id == "C05" {
                        if out.violation.is_none() {
                            out.violation = Some(engine::Violation {
                                property: id.to_string(),
                                case: case.clone(),
                                sig: "C05:hang".into(),
                                detail: "this case did not finish within the per-case watchdog in the run and not within 120 s when re-run alone in a fresh process (typical cases take milliseconds)".into(),
                                origin: "watchdog".into(),
                            });
                        }
                    } else {
                        eprintln!("worker {w}: a case hangs also when re-run alone (the formatter's hang is C05's business): {}", syn::clip(&case.to_string(), 300));
                        out.stats.skip("deferred_to_C05:hang");
                    }
                }
                Some(Some(_)) => {
                    // finished alone: the stall was load, not a property of the case; the worker's remaining work is lost
                    eprintln!("worker {w} stalled under load (its in-flight case finishes in {:.1} s alone); its remaining cases were not run", t1.elapsed().as_secs_f64());
                    out.stats.skip("worker-lost:stalled-under-load");
                }
                None => inconclusive = true,
            }
            continue;
        }
        if id == "C05" && status != "timeout" {
            if let Some(case) = infl {
                let v = engine::Violation {
                    property: id.to_string(),
                    case: case.clone(),
                    sig: "C05:abort".into(),
                    detail: format!("worker process died ({status}) while formatting this case on an 8 MiB stack (stack overflow / abort)"),
                    origin: "crash".into(),
                };
                if out.violation.is_none() {
                    out.violation = Some(v);
                }
                continue;
            }
        }
        if id == "C02" && status != "timeout" {
            // the Typst compiler / renderer itself may abort (failed allocation, stack overflow) on an
            // extreme document: if it also dies on the ORIGINAL text alone, in a fresh process, the loss
            // of this worker has nothing to do with typstyle -- counted, not inconclusive
            if let Some(src) = infl.as_ref().and_then(|v| v["src"].as_str()) {
                let probe = std::process::Command::new(&exe)
                    .arg("renderprobe")
                    .stdin(std::process::Stdio::piped())
                    .stdout(std::process::Stdio::null())
                    .stderr(std::process::Stdio::null())
                    .spawn()
                    .and_then(|mut ch| {
                        use std::io::Write;
                        if let Some(mut si) = ch.stdin.take() {
                            let _ = si.write_all(src.as_bytes());
                        }
                        ch.wait()
                    });
                if probe.is_ok_and(|st| !st.success()) {
                    eprintln!("worker {w} was lost to an abort of the Typst compiler itself on an input (not typstyle's): {}", syn::clip(src, 200));
                    out.stats.skip("worker-lost:typst-itself-aborts-on-the-input");
                    continue;
                }
            }
        }
        eprintln!("worker {w} did not finish ({status}); in-flight case: {}", infl.as_ref().map(|v| syn::clip(&v.to_string(), 300)).unwrap_or_default());
        inconclusive = true;
    }

    // 2b. thorough tier: coverage-guided fuzzing of the same case space with the same oracle
    let mut fuzz_extra = json!({});
    if tier == Tier::Thorough
        && out.violation.is_none()
        && fuzz::FUZZABLE.contains(&id)
        && std::env::var("VERIF_NO_FUZZ").is_err()
    {
        if !fuzz::available(&ctx.root) {
            eprintln!("fuzz targets are not built (cargo +nightly fuzz build failed?): fuzzing stage skipped");
            fuzz_extra = json!({"fuzz": {"skipped": "targets not built"}});
        } else {
            let runs: u64 = std::env::var("VERIF_FUZZ_RUNS").ok().and_then(|s| s.parse().ok()).unwrap_or(120_000);
            let fo = fuzz::campaign(&ctx.root, id, seed, nw.max(1), runs, &outdir, &ctx.corpus, 2400);
            let scratch = outdir.join("scratch-fuzz");
            let env_strict = ctx.env(tier, seed, false, scratch.clone());
            if let Some(v) = &fo.violation {
                let shrunk = dispatch(id, ShrinkV { env: &env_strict, case: &v["case"], origin: "libfuzzer" }).flatten();
                match shrunk {
                    Some(sv) => out.violation = Some(sv),
                    None => eprintln!("a fuzz target reported a violation that does not reproduce in-process: {}", syn::clip(&v.to_string(), 400)),
                }
            }
            // artefacts without an oracle verdict: crashes / hangs of the formatter are C05's business
            let mut confirmed_crash = 0;
            if id == "C05" && out.violation.is_none() {
                for (kind, path) in &fo.artefacts {
                    let Ok(bytes) = std::fs::read(path) else { continue };
                    let case = if kind.starts_with("src:") {
                        vlib::fuzzdec::tot_case(&bytes).and_then(|c| serde_json::to_value(&c).ok())
                    } else {
                        dispatch(id, TapeDecodeV { env: &env_strict, bytes: &bytes }).flatten()
                    };
                    let Some(case) = case else { continue };
                    let rp = outdir.join("artefact-replay.json");
                    std::fs::write(&rp, serde_json::to_vec(&json!({"property": id, "case": case, "expect": "pass"})).unwrap_or_default()).ok();
                    // isolated re-run, generous limit: typical cases take milliseconds
                    let t1 = std::time::Instant::now();
                    let mut child = match std::process::Command::new(&exe).arg("replay").arg(&rp).arg("--quiet").spawn() {
                        Ok(c) => c,
                        Err(_) => continue,
                    };
                    let status = loop {
                        match child.try_wait() {
                            Ok(Some(s)) => break Some(s),
                            Ok(None) if t1.elapsed().as_secs() > 180 => {
                                let _ = child.kill();
                                let _ = child.wait();
                                break None;
                            }
                            Ok(None) => std::thread::sleep(std::time::Duration::from_millis(50)),
                            Err(_) => break None,
                        }
                    };
                    let bad = match status {
                        None => Some("did not finish within 180 s when re-run alone (hang)".to_string()),
                        Some(s) if s.code() == Some(1) => Some("fails when re-run alone".to_string()),
                        Some(s) if s.code().is_none() => Some(format!("process died ({s}) when re-run alone")),
                        _ => None,
                    };
                    if let Some(why) = bad {
                        confirmed_crash += 1;
                        out.violation = Some(engine::Violation {
                            property: id.to_string(),
                            case,
                            sig: format!("C05:fuzz-{kind}"),
                            detail: format!("libFuzzer artefact ({kind}): {why}"),
                            origin: "libfuzzer".into(),
                        });
                        break;
                    }
                }
            }
            fuzz_extra = json!({"fuzz": {
                "engine": "libFuzzer (cargo-fuzz targets tape = structure-aware tape decoding, src = raw text), sanitizer none, one process per core, shared corpus",
                "targets": fo.stats,
                "executions": fo.execs,
                "artefacts_without_oracle_verdict": fo.artefacts.iter().map(|(k, _)| k.clone()).collect::<Vec<_>>(),
                "artefacts_confirmed": confirmed_crash,
            }});
            let _ = std::fs::remove_dir_all(&scratch);
        }
    }

    if let Some(v) = &out.violation {
        let text = serde_json::to_string_pretty(&json!({
            "property": v.property, "case": v.case, "sig": v.sig, "detail": v.detail, "origin": v.origin,
            "expect": "pass", "seed": seed, "tier": tier.name(),
        }))
        .unwrap();
        let h = syn::fnv64(text.as_bytes());
        let dir = out_dir().join("replays").join(id);
        std::fs::create_dir_all(&dir).ok();
        let path = dir.join(format!("{h:016x}.json"));
        std::fs::write(&path, text).ok();
        let rel = path.strip_prefix(&ctx.root).unwrap_or(&path).display().to_string();
        violations.push((rel, format!("sig={} {}", v.sig, v.detail)));
    }

    // survey output
    if engine::survey_mode() {
        let mut rows: Vec<_> = out.stats.failures.iter().collect();
        rows.sort_by_key(|(_, (n, _, _))| std::cmp::Reverse(*n));
        println!("SURVEY {id}: {} failure buckets", rows.len());
        let sdir = ctx.root.join("harness/target/survey").join(id);
        let _ = std::fs::remove_dir_all(&sdir);
        std::fs::create_dir_all(&sdir).ok();
        for (k, (sig, (n, ex, detail))) in rows.iter().enumerate() {
            println!("--- [{k}] {n}x {sig}\n    {}\n    case: {}", syn::clip(detail, 400), syn::clip(&ex.to_string(), 500));
            let text = serde_json::to_string_pretty(&json!({"property": id, "case": ex, "sig": sig, "detail": detail, "expect": "pass"})).unwrap();
            std::fs::write(sdir.join(format!("{k:03}.json")), text).ok();
        }
    }

    out.wall_s = t0.elapsed().as_secs_f64();
    let ev_path = out_dir().join("evidence").join(format!("{id}.json"));
    engine::write_evidence(
        &ev_path,
        id,
        tier,
        seed,
        &rule,
        &assumptions,
        &out,
        violations.len() as u64,
        &known_lines,
        regress_replayed,
        fuzz_extra,
    );
    remove_scratch(&outdir);

    println!(
        "{id} {}: evaluations={} (swept {}, generated {}, rejected {}) distinct_nontrivial={} skipped={:?} wall={:.1}s",
        tier.name(),
        out.stats.evaluations,
        out.stats.swept,
        out.stats.generated,
        out.stats.rejected,
        out.distinct_nontrivial,
        out.stats.skipped,
        out.wall_s
    );
    if !violations.is_empty() {
        for (path, text) in &violations {
            println!("  {}", syn::clip(text, 600));
            println!("VIOLATION property={id} replay={path}");
        }
        return 1;
    }
    if inconclusive {
        println!("INCONCLUSIVE property={id}: a worker crashed or timed out (not a violation)");
        return 2;
    }
    0
}

// ------------------------------------------------------------------------------------ dev tools

fn read_stdin() -> String {
    let mut s = String::new();
    std::io::stdin().read_to_string(&mut s).expect("stdin");
    s
}

fn arg_val(args: &[String], name: &str) -> Option<String> {
    args.iter().position(|a| a == name).and_then(|i| args.get(i + 1).cloned())
}

fn main() {
    let args: Vec<String> = std::env::args().skip(1).collect();
    fmtimpl::install_panic_hook();
    let code = std::thread::Builder::new()
        .stack_size(1 << 30)
        .spawn(move || real_main(args))
        .expect("spawn main")
        .join()
        .unwrap_or(101);
    std::process::exit(code);
}

fn real_main(args: Vec<String>) -> i32 {
    match args.first().map(|s| s.as_str()) {
        Some("run") => {
            let id = args.get(1).cloned().unwrap_or_default();
            let tier = args.get(2).and_then(|s| Tier::parse(s)).unwrap_or(Tier::Quick);
            run(&id, tier)
        }
        Some("worker") => {
            let id = args[1].clone();
            let tier = Tier::parse(&args[2]).expect("tier");
            let seed: u64 = args[3].parse().expect("seed");
            let w: usize = args[4].parse().expect("w");
            let nw: usize = args[5].parse().expect("nw");
            let outdir = PathBuf::from(&args[6]);
            let ctx = Ctx::new(&id);
            let scratch = outdir.join(format!("scratch-w{w}"));
            let env = ctx.env(tier, seed, false, scratch);
            match dispatch(&id, WorkerV { env: &env, w, nw, outdir: &outdir }) {
                Some(()) => 0,
                None => 2,
            }
        }
        Some("replay") => {
            let quiet = args.iter().any(|a| a == "--quiet");
            replay_file(Path::new(&args[1]), quiet)
        }
        Some("fmt") => {
            let cfg = Cfg {
                width: arg_val(&args, "--width").and_then(|s| s.parse().ok()).unwrap_or(80),
                tab: arg_val(&args, "--tab").and_then(|s| s.parse().ok()).unwrap_or(2),
                reorder: args.iter().any(|a| a == "--reorder"),
                blank: arg_val(&args, "--blank").and_then(|s| s.parse().ok()).unwrap_or(2),
            };
            let src = read_stdin();
            let real = fmtimpl::Real { stack: None };
            if let Some(r) = arg_val(&args, "--range") {
                let (a, b) = r.split_once("..").expect("a..b");
                println!("{:?}", real.format_range(&src, a.parse().unwrap(), b.parse().unwrap(), &cfg));
                return 0;
            }
            match real.format(&src, &cfg) {
                Fmt::Ok(s) => print!("{s}"),
                other => println!("{other:?}"),
            }
            0
        }
        Some("norm") => {
            let src = read_stdin();
            let root = syn::parse(&src);
            println!("erroneous={}", root.erroneous());
            for t in vlib::oracle::normal::normalize(&root, Default::default()) {
                println!("{t}");
            }
            0
        }
        Some("fmtone") => pure::fmtone_main(&fmtimpl::Real { stack: None }),
        Some("triggers") => {
            let src = read_stdin();
            let root = syn::parse(&src);
            println!("{:?}", vlib::known::triggers(&src, &root));
            0
        }
        Some("tree") => {
            let src = read_stdin();
            println!("{:#?}", syn::parse(&src));
            0
        }
        Some("renderprobe") => {
            // compile + render the text on stdin, nothing else (C02: does Typst itself survive this input?)
            let src = read_stdin();
            let _ = vrender::render(&src, 1.0);
            0
        }
        Some("nest") => {
            // vcheck nest [family] [depth]: print a nesting family (all families: well-formedness summary)
            let depth: usize = args.get(2).and_then(|s| s.parse().ok()).unwrap_or(3);
            match args.get(1).map(|s| s.as_str()) {
                Some(f) if f != "all" => print!("{}", vlib::gen::nest::same(f, depth)),
                _ => {
                    for f in vlib::gen::nest::FAMILIES {
                        let s = vlib::gen::nest::same(f, depth);
                        println!("{f}: wf={} bytes={}", syn::wf(&s), s.len());
                    }
                }
            }
            0
        }
        Some("gen") => {
            // vcheck gen <focus> <n> <seed>
            use vlib::gen::grammar::{document, Focus};
            let focus = match args.get(1).map(|s| s.as_str()) {
                Some("comments") => Focus::Comments,
                Some("prose") => Focus::Prose,
                Some("math") => Focus::Math,
                Some("literals") => Focus::Literals,
                Some("imports") => Focus::Imports,
                Some("breaks") => Focus::Breaks,
                Some("code") => Focus::Code,
                _ => Focus::Any,
            };
            let n: usize = args.get(2).and_then(|s| s.parse().ok()).unwrap_or(5);
            let mut seed: u64 = args.get(3).and_then(|s| s.parse().ok()).unwrap_or(1);
            let mut ok = 0;
            for _ in 0..n {
                let bytes: Vec<u8> = (0..1024)
                    .map(|_| {
                        seed = syn::splitmix64(seed);
                        seed as u8
                    })
                    .collect();
                let mut t = vlib::tape::Tape::new(&bytes);
                let d = document(&mut t, focus);
                let wf = syn::wf(&d);
                ok += wf as usize;
                if args.iter().any(|a| a == "--print") {
                    println!("=================== wf={wf}\n{d}");
                }
            }
            println!("well-formed: {ok}/{n}");
            0
        }
        _ => {
            eprintln!("usage: vcheck run <ID> <quick|thorough> | replay <file> | fmt | norm | tree | gen");
            2
        }
    }
}
