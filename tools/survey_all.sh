#!/bin/bash
# tools/survey_all.sh <tier> <seed> [props...] -- development aid (for `vp run`): builds the harness in this
# checkout, then runs the given properties in survey mode (all failure buckets, shrunk) and prints them
cd "$(dirname "$0")/.."
TIER=$1; SEED=$2; shift 2
PROPS=${@:-C01 C02 C03 C04 C06 C07 C08 C09 C10 C11 C12 C13 C19}
./check --setup || exit 2
for p in $PROPS; do
  echo "################ $p $TIER seed=$SEED"
  VERIF_SEED=$SEED VERIF_SURVEY=1 harness/target/release/vcheck run $p $TIER 2>&1 | grep -v "^KNOWN" | cut -c1-${CUT:-900}
done
