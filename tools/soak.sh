#!/bin/bash
# tools/soak.sh <first-seed> <last-seed> [props...] -- run the registered quick checks over many seeds and
# list every violation (for `vp run`: builds the harness in the snapshot first)
cd "$(dirname "$0")/.."
A=$1; B=$2; shift 2
PROPS=${@:-C01 C02 C03 C04 C05 C06 C07 C08 C09 C10 C11 C12 C13 C14 C15 C16 C17 C18 C19}
./check --setup || exit 2
for s in $(seq $A $B); do
  for p in $PROPS; do
    out=$(VERIF_SEED=$s harness/target/release/vcheck run $p quick 2>&1); rc=$?
    if [ $rc -ne 0 ]; then
      echo "### seed=$s $p rc=$rc"; echo "$out" | grep -v '^KNOWN' | tail -4 | cut -c1-700
      for f in $(echo "$out" | grep -o 'replays/[^ ]*json'); do python3 -c "
import json,sys
v=json.load(open('$f')); print('CASE', json.dumps(v['case'])[:1200])"; done
    fi
  done
  echo "seed $s done"
done
