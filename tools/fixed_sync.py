#!/usr/bin/env python3
"""Regenerates regress/<ID>/fixed-*.json and the `fixed:` lines of KNOWN_FINDINGS.txt from fixed.json,
and verifies that every case passes on the current tree (a fixed entry suppresses nothing)."""
import json, os, subprocess, glob, sys
ROOT = os.path.dirname(os.path.dirname(os.path.abspath(__file__)))
V = f"{ROOT}/harness/target/release/vcheck"
F = json.load(open(f"{ROOT}/fixed.json"))
for f in glob.glob(f"{ROOT}/regress/*/fixed-*.json"):
    os.remove(f)
lines = []; bad = 0
for e in F["fixed"]:
    prop = e["property"]; case = dict(e["case"])
    if "cfg" in case:
        case["cfg"].setdefault("reorder", False); case.setdefault("origin", "fixed:" + e["commit"])
    os.makedirs(f"{ROOT}/regress/{prop}", exist_ok=True)
    path = f"{ROOT}/regress/{prop}/fixed-{e['name']}.json"
    json.dump({"property": prop, "expect": "pass", "fixed_by": e["commit"], "case": case}, open(path, "w"), ensure_ascii=False)
    r = subprocess.run([V, "replay", path], capture_output=True, text=True)
    status = "ok" if r.returncode == 0 else f"FAILS (rc={r.returncode}) {r.stdout.strip()[:200]}"
    if r.returncode != 0: bad += 1
    print(f"{prop} {e['name']}: {status}")
    lines.append(f"fixed: property={prop} {e['commit']} {e['what']} [replay=regress/{prop}/fixed-{e['name']}.json]")
old = open(f"{ROOT}/KNOWN_FINDINGS.txt").read().splitlines()
keep = [l for l in old if not l.startswith("fixed:")]
open(f"{ROOT}/KNOWN_FINDINGS.txt", "w").write("\n".join(keep + lines) + "\n")
sys.exit(1 if bad else 0)
