#!/bin/bash
# tools/confirm_seed.sh <ID> <k> <demo-file> <demo-dest-dir-in-worktree> <demo-cargo-args...>
# Confirms a sub-agent's seeded change in its scratch worktree /tmp/seed-<ID>: the patch applies, the
# existing tests still pass (1923), the demo fails with the change and passes without it.
set -u
ID=$1; K=$2; DEMO=$3; DEST=$4; shift 4
W=/tmp/seed-$ID; O=/tmp/seed-$ID-out/change-$K
cd $W || exit 2
git checkout -q -- . ; git clean -qfd -e target
git apply $O/patch.diff || { echo "PATCH DOES NOT APPLY"; exit 1; }
echo "== existing tests with the change"
CARGO_NET_OFFLINE=true cargo nextest run --workspace --no-fail-fast --offline --test-threads 8 2>&1 | grep -E "Summary|error\[" | head -3
mkdir -p $W/$DEST; cp $O/$DEMO $W/$DEST/
echo "== demo with the change (expected: fails)"
CARGO_NET_OFFLINE=true cargo nextest run --offline "$@" 2>&1 | grep -E "Summary|error\[|FAIL|PASS" | head -8
git checkout -q -- .
echo "== demo without the change (expected: passes)"
CARGO_NET_OFFLINE=true cargo nextest run --offline "$@" 2>&1 | grep -E "Summary|error\[|FAIL|PASS" | head -8
rm -f $W/$DEST/$DEMO
git checkout -q -- . ; git clean -qfd -e target
