#!/usr/bin/env python3
"""Regenerates KNOWN_FINDINGS.txt `known:` lines and regress/<ID>/known-*.json from findings.json.
For every (finding, property) it probes the repro inputs with the property's oracle in strict mode
(`vcheck replay`); the first repro that FAILS becomes that property's regress case and activates the
finding's input trigger for that property. Development tool: run it after a finding is added; the
checks themselves never write these files."""
import json, os, subprocess, sys, glob
ROOT = os.path.dirname(os.path.dirname(os.path.abspath(__file__)))
V = f"{ROOT}/harness/target/release/vcheck"
F = json.load(open(f"{ROOT}/findings.json"))
props = F["probe_properties"]
for f in glob.glob(f"{ROOT}/regress/*/known-*.json"):
    os.remove(f)
lines = []
for fd in F["findings"]:
    for prop in fd.get("properties", props):
        for k, r in enumerate(fd["repros"]):
            if "case" in r:
                case = r["case"]
            else:
                case = {"src": r["src"], "cfg": {"width": r.get("width", 80), "tab": r.get("tab", 2), "reorder": r.get("reorder", False)}, "origin": fd["id"]}
                if "range" in r:
                    case["range"] = r["range"]
            os.makedirs(f"{ROOT}/regress/{prop}", exist_ok=True)
            path = f"{ROOT}/regress/{prop}/known-{fd['id']}.json"
            json.dump({"property": prop, "expect": f"known:{fd['id']}", "case": case}, open(path, "w"), ensure_ascii=False)
            rc = subprocess.run([V, "replay", path, "--quiet"], capture_output=True).returncode
            if rc == 1 or rc < 0:
                lines.append(f"known: property={prop} id={fd['id']} replay=regress/{prop}/known-{fd['id']}.json {fd['what']}")
                break
            os.remove(path)
# keep header and fixed: lines
old = open(f"{ROOT}/KNOWN_FINDINGS.txt").read().splitlines() if os.path.exists(f"{ROOT}/KNOWN_FINDINGS.txt") else []
keep = [l for l in old if not l.startswith("known:")]
open(f"{ROOT}/KNOWN_FINDINGS.txt", "w").write("\n".join(keep + lines) + "\n")
print(f"{len(lines)} known lines")
for l in lines:
    print(" ", l[:110])
