#!/bin/bash
# tools/mutant.sh <patch> [vcheck args...] -- development aid: build the harness against a scratch copy of
# /repo with <patch> applied (target-mut) and run that vcheck with the given arguments (stdin passed through).
# The scratch copy is removed afterwards; the binary stays in harness/target-mut for further runs
# (harness/target-mut/release/vcheck ...).
set -u
ROOT="$(cd "$(dirname "$0")/.." && pwd)"
P=$(realpath "$1"); shift
SCR=/tmp/vmutant-$$; mkdir -p $SCR/repo; trap 'rm -rf $SCR' EXIT
(cd /repo && git archive HEAD | tar -x -C $SCR/repo)
(cd $SCR/repo && patch -p1 -s --no-backup-if-mismatch < "$P") || { echo "patch does not apply"; exit 2; }
(cd "$ROOT/harness" && CARGO_NET_OFFLINE=true cargo build --release --offline -q -p vcheck --target-dir "$ROOT/harness/target-mut" \
   --config "paths=[\"$SCR/repo/crates/typstyle-core\"]") || exit 2
[ $# -gt 0 ] && VERIF_ROOT="$ROOT" VERIF_OUT=$SCR/out "$ROOT/harness/target-mut/release/vcheck" "$@"
