#!/usr/bin/env python3
"""tools/keep_seed.py <ID> <k> <what> <needs> [demo-dir] -- copy a confirmed sub-agent change from
/tmp/seed-<ID>-out/change-<k>/ to seeded/<ID>-<k>/ and write its meta.json (development tool)."""
import json, os, shutil, sys, glob
ID, k, what, needs = sys.argv[1:5]
demodir = sys.argv[5] if len(sys.argv) > 5 else "crates/typstyle-core/tests"
pkg = "typstyle" if "crates/typstyle/" in demodir + "/" else ("typstyle-tests" if demodir.startswith("tests") else "typstyle-core")
src = f"/tmp/seed-{ID}-out/change-{k}"
newk = os.environ.get("NEWK", k)
dst = os.path.join(os.path.dirname(os.path.dirname(os.path.abspath(__file__))), "seeded", f"{ID}-{newk}")
os.makedirs(dst, exist_ok=True)
demos = []
for f in glob.glob(src + "/*"):
    b = os.path.basename(f)
    if b.endswith(".log") or os.path.isdir(f):
        continue
    shutil.copy(f, dst)
    if b.startswith("seed_demo"):
        demos.append(b)
meta = {
    "property": ID,
    "origin": f"sub-agent seed-{ID}" + (f" round 3, its change {k}" if newk != k else "") + f" (given only the property text and a scratch worktree of /repo)",
    "what": what,
    "needs": needs,
    "confirmed": f"tools/confirm_seed.sh {ID} {k} seed_demo_{k}.rs {demodir} -p {pkg} --test seed_demo_{k}: patch applies; existing suite 1923 passed / 14 e2e failed (= baseline); demo fails with the change and passes without it",
    "demo": demos,
}
json.dump(meta, open(dst + "/meta.json", "w"), indent=1, ensure_ascii=False)
print("kept", dst, demos)
