#!/usr/bin/env python3
"""tools/addknown.py PROP ID NAME SRC WHAT [width tab reorder] -- development aid: add a known-finding line + regress case.
SRC: backslash escapes (\\n, \\u2028, ...) are interpreted."""
import json, sys, os
prop, fid, name, src, what = sys.argv[1:6]
width = int(sys.argv[6]) if len(sys.argv) > 6 else 80
tab = int(sys.argv[7]) if len(sys.argv) > 7 else 2
reorder = (sys.argv[8] == "1") if len(sys.argv) > 8 else False
src = json.loads('"' + src.replace('"', '\\"') + '"')
root = os.path.dirname(os.path.dirname(os.path.abspath(__file__)))
os.makedirs(f"{root}/regress/{prop}", exist_ok=True)
json.dump({"property": prop, "expect": f"known:{fid}", "case": {"src": src, "cfg": {"width": width, "tab": tab, "reorder": reorder}, "origin": fid}},
          open(f"{root}/regress/{prop}/{name}.json", "w"))
open(f"{root}/KNOWN_FINDINGS.txt", "a").write(f"known: property={prop} id={fid} replay=regress/{prop}/{name}.json {what}\n")
print("added", prop, fid)
