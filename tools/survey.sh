#!/bin/bash
# tools/survey.sh <ID> [seeds...]  -- development aid: run a property in survey mode over several seeds
cd "$(dirname "$0")/.."
ID=$1; shift
for s in "${@:-1 2 3}"; do
  echo "=== seed $s"
  VERIF_SEED=$s VERIF_SURVEY=1 harness/target/release/vcheck run $ID quick 2>&1 | grep -v "^KNOWN" | cut -c1-${CUT:-420}
done
