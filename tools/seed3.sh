#!/bin/bash
# tools/seed3.sh <ID> <k> <newk> [demodir] -- confirm change k of /tmp/seed-<ID>-out in its worktree, run the selftest on it
# (development tool; prints the confirmation and the verdict; keep_seed.py is run by hand afterwards)
ID=$1; K=$2; NEWK=$3
case $ID in C14|C15|C16) DD=${4:-crates/typstyle/tests}; PKG=typstyle;; C02) DD=${4:-tests/tests}; PKG=typstyle-tests;; *) DD=${4:-crates/typstyle-core/tests}; PKG=typstyle-core;; esac
cd "$(dirname "$0")/.."
tools/confirm_seed.sh $ID $K seed_demo_$K.rs $DD -p $PKG --test seed_demo_$K 2>&1 | tail -16
