#!/usr/bin/env python3
"""Rewrites the generated tables of DESIGN.md (between <!-- BEGIN:x --> / <!-- END:x --> markers) from
fixed.json, findings.json + KNOWN_FINDINGS.txt and seeded/*/meta.json + seeded/RESULTS.json (development tool)."""
import json, os, re, glob
ROOT = os.path.dirname(os.path.dirname(os.path.abspath(__file__)))
D = open(f"{ROOT}/DESIGN.md").read()

def esc(s):
    return s.replace("|", "\\|").replace("\n", "<nl>")

# fixed
F = json.load(open(f"{ROOT}/fixed.json"))["fixed"]
rows = ["| commit | property | what failed |", "|---|---|---|"]
for e in F:
    rows.append(f"| `{e['commit']}` | {e['property']} | {esc(e['what'])} |")
fixed_tbl = "\n".join(rows)

# known
K = json.load(open(f"{ROOT}/findings.json"))["findings"]
active = {}
for l in open(f"{ROOT}/KNOWN_FINDINGS.txt"):
    m = re.match(r"known: property=(\S+) id=(\S+) ", l)
    if m:
        active.setdefault(m.group(2), []).append(m.group(1))
rows = ["| id | what fails (minimal input in the text) | active for |", "|---|---|---|"]
for fd in K:
    act = ", ".join(sorted(active.get(fd["id"], []))) or "(no property probe fails on the recorded inputs any more: not excluded anywhere)"
    rows.append(f"| {fd['id']} | {esc(fd['what'])} | {act} |")
known_tbl = "\n".join(rows)

# seeded
res = {}
rp = f"{ROOT}/seeded/RESULTS.json"
if os.path.exists(rp):
    res = json.load(open(rp))
rows = ["| change | breaks | what it does | needs | caught by |", "|---|---|---|---|---|"]
for d in sorted(glob.glob(f"{ROOT}/seeded/*/meta.json")):
    m = json.load(open(d)); name = os.path.basename(os.path.dirname(d))
    r = res.get(name, {})
    caught = r.get("verdict", "?")
    if r.get("by"):
        caught = f"{r['verdict']}: {r['by']} (`{esc(r.get('sig',''))[:90]}`)"
    rows.append(f"| {name} | {m['property']} | {esc(m['what'])[:330]} | {esc(m['needs'])[:220]} | {caught} |")
seeded_tbl = "\n".join(rows)

for key, tbl in [("fixed", fixed_tbl), ("known", known_tbl), ("seeded", seeded_tbl)]:
    pat = re.compile(rf"(<!-- BEGIN:{key} -->\n).*?(\n<!-- END:{key} -->)", re.S)
    if pat.search(D):
        D = pat.sub(lambda m: m.group(1) + tbl + m.group(2), D)
    else:
        print(f"marker {key} not found")
open(f"{ROOT}/DESIGN.md", "w").write(D)
print("tables:", len(F), "fixed,", len(K), "findings,", len(glob.glob(f'{ROOT}/seeded/*/meta.json')), "seeded")
