#!/usr/bin/env python3
"""tools/selftest_results.py <selftest-log>... -- merge the verdict lines of ./selftest runs into
seeded/RESULTS.json and mutants/RESULTS.json (development tool; later logs win)."""
import json, os, re, sys
ROOT = os.path.dirname(os.path.dirname(os.path.abspath(__file__)))
out = {"seeded": {}, "mutants": {}}
for k in out:
    p = f"{ROOT}/{k}/RESULTS.json"
    if os.path.exists(p):
        out[k] = json.load(open(p))
for log in sys.argv[1:]:
    for line in open(log, errors="replace"):
        m = re.match(r"(KILLED|SURVIVED|ERROR) (\S+)\s+\[(.*)\]\s*$", line)
        if not m:
            continue
        verdict, name, detail = m.groups()
        kind = "seeded" if os.path.isdir(f"{ROOT}/seeded/{name}") else "mutants"
        e = {"verdict": verdict}
        d = re.match(r"\s*(C\d\d):\s+sig=(\S+)", detail)
        if verdict == "KILLED" and d:
            e["by"] = d.group(1); e["sig"] = d.group(2)
        elif verdict != "KILLED":
            e["detail"] = detail.strip()
        out[kind][name] = e
for k in out:
    if out[k]:
        json.dump(dict(sorted(out[k].items())), open(f"{ROOT}/{k}/RESULTS.json", "w"), indent=1)
        n = len(out[k]); kd = sum(1 for v in out[k].values() if v["verdict"] == "KILLED")
        print(f"{k}: {kd}/{n} killed")
