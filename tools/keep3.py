#!/usr/bin/env python3
"""tools/keep3.py <json-file> -- keep confirmed round-3 changes: entries [ID, k, newk, what, needs, first_verdict] (development tool)"""
import json, os, subprocess, sys
ROOT = os.path.dirname(os.path.dirname(os.path.abspath(__file__)))
for ID, k, newk, what, needs, first in json.load(open(sys.argv[1])):
    dd = {"C14": "crates/typstyle/tests", "C15": "crates/typstyle/tests", "C16": "crates/typstyle/tests", "C02": "tests/tests"}.get(ID, "crates/typstyle-core/tests")
    env = dict(os.environ, NEWK=str(newk))
    subprocess.run([f"{ROOT}/tools/keep_seed.py", ID, str(k), what, needs, dd], env=env, check=True)
    mp = f"{ROOT}/seeded/{ID}-{newk}/meta.json"
    m = json.load(open(mp)); m["round"] = 3; m["first_verdict"] = first
    # the demo keeps the name the sub-agent gave it
    json.dump(m, open(mp, "w"), indent=1, ensure_ascii=False)
    for junk in ("suite.log",):
        p = f"{ROOT}/seeded/{ID}-{newk}/{junk}"
        if os.path.exists(p): os.remove(p)
