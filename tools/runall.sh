#!/bin/bash
# tools/runall.sh [tier] [seed] -- run every registered check once, print a one-line summary each
cd "$(dirname "$0")/.."
TIER=${1:-quick}; export VERIF_SEED=${2:-0}
for p in C01 C02 C03 C04 C05 C06 C07 C08 C09 C10 C11 C12 C13 C14 C15 C16 C17 C18 C19; do
  s=$(date +%s.%N)
  out=$(./check $p $TIER 2>&1); rc=$?
  e=$(date +%s.%N)
  printf "%s rc=%d %.1fs known=%d %s\n" $p $rc $(echo "$e - $s" | bc) $(echo "$out" | grep -c '^KNOWN-FINDING') "$(echo "$out" | grep -E 'VIOLATION|INCONCLUSIVE|BUILD' | head -2 | tr '\n' ' ')"
done
