#!/bin/bash
# tools/survey_thorough.sh [props...] -- development aid: the generated / swept part of the thorough tier (no libFuzzer
# stage) in survey mode: lists every failure bucket instead of stopping at the first
cd "$(dirname "$0")/.."
for p in ${@:-C01 C03 C04 C06 C07 C08 C09 C10 C11 C12 C13 C19 C02 C05}; do
  echo "=== $p"
  VERIF_NO_FUZZ=1 VERIF_SURVEY=1 VERIF_SEED=${VERIF_SEED:-0} harness/target/release/vcheck run $p thorough 2>&1 | grep -v "^KNOWN" | grep -E "^--- |case:|SURVEY|^    |thorough:" | cut -c1-${CUT:-400}
done
