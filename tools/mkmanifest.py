#!/usr/bin/env python3
"""Regenerates /verif/MANIFEST.json. Edit CLAIMED / NOT_APPLICABLE here, never the JSON by hand."""
import json, os
ROOT = os.path.dirname(os.path.dirname(os.path.abspath(__file__)))

ENGINE = "vcheck (proptest-driven tape decoding, supervisor + 16 worker processes)"

# id -> (technique, level text, level note, design ref)
CLAIMED = {
 "C04": ("property-based testing: generated + mutated Typst sources x configs, oracle = Typst parser accepts the output",
         "Exploration: a deterministic sweep of the vendored fixture corpus over a width x indent grid the test-suite never uses, plus proptest-generated grammar/mutation cases, each output re-parsed with typst-syntax; failures are shrunk (tape, then source-level delta debugging) into replay files. Finds counterexamples, never proves absence.",
         "Trusts typst-syntax 0.13.1 to decide well-formedness. Inputs containing the trigger of a listed known finding are excluded (counted in evidence). Panics are C05's business.",
         "DESIGN.md 5 (C04)"),
 "C05": ("fuzzing-style property-based testing over arbitrary UTF-8 (random, damaged, deep nesting) with process isolation; oracle = no panic/abort/hang, refusal iff parser errors, wrapper identity",
         "Exploration: random and damaged text, extreme configs, every nesting family at depth 1000 on an 8 MiB stack; a worker that dies pins the in-flight case.",
         "Release build with debug-assertions/overflow-checks on. Depth of nesting explored is bounded (1000 quick / 2000 thorough); deeper recursion limits are recorded as a known finding if reached.",
         "DESIGN.md 5 (C05)"),
 "C11": ("property-based testing incl. degenerate documents; oracle = validity predicate on the returned string",
         "Exploration over the shared generators plus targeted degenerate documents (empty, blanks of every Unicode kind, comment/raw endings, missing final newline).",
         "Blank = char::is_whitespace; lines are split at LF (the only line break typstyle emits itself).",
         "DESIGN.md 5 (C11)"),
}

NOT_APPLICABLE = {
}

def main():
    props = [json.loads(l) for l in open(os.path.join(ROOT, "properties.jsonl"))]
    checks = []
    na = []
    for p in props:
        pid = p["id"]
        if pid in CLAIMED:
            tech, text, note, ref = CLAIMED[pid]
            checks.append({
                "property_id": pid,
                "quick_cmd": f"./check {pid} quick",
                "thorough_cmd": f"./check {pid} thorough",
                "evidence_file": f"evidence/{pid}.json",
                "replay_cmd_template": "./check --replay {path}",
                "engine": "vcheck",
                "level_claimed": {"category": "exploration", "text": text, "design_ref": ref},
                "level_note": note,
                "technique": tech,
            })
        else:
            na.append({"property_id": pid, "reason": NOT_APPLICABLE.get(pid, "check not built yet (work in progress; the technique applies, see DESIGN.md section 5)")})
    m = {
        "version": 1,
        "setup_cmd": "./check --setup",
        "hooks": {
            "guard": "--cfg typstyle_verif",
            "enable": "RUSTFLAGS=--cfg typstyle_verif via /verif/harness/.cargo/config.toml (cargo build --release --offline in /verif/harness; typstyle-core is a path dependency on /repo/crates/typstyle-core)",
            "baseline_off_cmd": "cd /repo && cargo nextest run --workspace --no-fail-fast --test-threads 8 --offline",
            "source_commits": ["da7ac76"],
            "add_only": True,
        },
        "engines": [{
            "name": "vcheck",
            "path": "harness/",
            "serves_properties": sorted(CLAIMED.keys()),
            "kind_free_text": ENGINE,
        }],
        "checks": checks,
        "notes": "All checks are ./check <ID> <tier>; they rebuild the harness against /repo's working tree first. Known findings: KNOWN_FINDINGS.txt; fix commits in /repo are listed there as `fixed:` lines.",
        "not_applicable": na,
    }
    json.dump(m, open(os.path.join(ROOT, "MANIFEST.json"), "w"), indent=1)
    print("claimed:", sorted(CLAIMED.keys()), "unclaimed:", [x["property_id"] for x in na])

main()
