#!/usr/bin/env python3
"""Regenerates /verif/MANIFEST.json. Edit CLAIMED / NOT_APPLICABLE here, never the JSON by hand."""
import json, os
ROOT = os.path.dirname(os.path.dirname(os.path.abspath(__file__)))

ENGINE = "vcheck (proptest-driven tape decoding, supervisor + 16 worker processes)"

# id -> (technique, level text, level note, design ref)
CLAIMED = {
 "C01": ("property-based testing: generated/mutated Typst sources x configs; oracle = Typst-semantic normal form N(parse(in)) == N(parse(fmt(in))); thorough tier: plus coverage-guided fuzzing (libFuzzer) of the same case space with the same oracle",
         "Exploration: deterministic sweep of the vendored fixture corpus over a width x indent grid the test-suite never uses plus proptest-generated grammar (G1) and mutation (G2) cases; the oracle keeps every token unless typst_syntax::ast hides it from evaluation, so an unanticipated change shows up as a difference. Failures are shrunk (tape, then source-level delta debugging) into replay files.",
         "Trusts typst-syntax 0.13.1 and the drop rules of N (DESIGN.md 4.1). A failing case whose minimal form still contains the trigger of a listed known finding is attributed to that finding and counted (DESIGN.md 7.1). Panics are C05's, erroneous output C04's business. All public Config fields vary, incl. blank_lines_upper_bound.",
         "DESIGN.md 4.1, 5 (C01)"),
 "C02": ("differential property-based testing against the real compiler: typst::compile + typst_render of original vs formatted text",
         "Exploration: corpus files/snippets over an unused config grid plus a typed generator of compiling programs (every bound value shown with repr; std imports whose bound names are called, padded reference supplements, counted strings, mixed line endings) and mutants of them, with import reordering on in one case of five and the blank-line bound varied; pages compared as pixmaps, diagnostics compared when both fail.",
         "typst 0.13.1 with embedded fonts, one in-memory main file, fixed date; pixmaps compared through a 64-bit hash within one process.",
         "DESIGN.md 5 (C02)"),
 "C03": ("property-based testing: idempotence fmt(fmt(x)) == fmt(x), width-targeted configs; thorough tier: plus coverage-guided fuzzing (libFuzzer) of the same case space with the same oracle",
         "Exploration as C01 with widths targeted at the line lengths of the unconstrained output (where a group flips between flat and broken), reorder on/off.",
         "Inputs containing the trigger of a listed known finding are excluded and counted (the unchanged tree has many recorded non-convergent corner cases around comments in unusual places).",
         "DESIGN.md 5 (C03)"),
 "C04": ("property-based testing: generated + mutated Typst sources x configs, oracle = Typst parser accepts the output; thorough tier: plus coverage-guided fuzzing (libFuzzer) of the same case space with the same oracle",
         "Exploration: corpus sweep + generated cases, each output re-parsed with typst-syntax.",
         "Trusts typst-syntax 0.13.1 to decide well-formedness. Known-finding triggers excluded and counted.",
         "DESIGN.md 5 (C04)"),
 "C05": ("fuzzing (random + coverage-guided libFuzzer in the thorough tier) and property-based testing over arbitrary UTF-8 (random, damaged, deep nesting) with process isolation; oracle = no panic/abort/hang, refusal iff parser errors, wrapper identity",
         "Exploration: random and damaged text, extreme configs (max_width up to usize::MAX/2, tab_spaces 0..64, blank_lines_upper_bound 0..usize::MAX), each of 76 nesting families at depth 1000 on an 8 MiB stack; a worker that dies pins the in-flight case.",
         "Release build with debug-assertions/overflow-checks on. Nesting depth explored is bounded (1000 quick / 2000 thorough).",
         "DESIGN.md 5 (C05)"),
 "C06": ("property-based testing with comment-dense generators; oracle = comment sequence/text/word-gap and word sequence equality; thorough tier: plus coverage-guided fuzzing (libFuzzer) of the same case space with the same oracle",
         "Exploration: comments at every token gap the generators know (list-level gaps, statement ends, chains, keyword gaps, around = => :, after the dot of a field access, inside math and math arguments, markup lines; G1 Comments focus, G2 comment insertion at any token boundary) over the corpus and generated sources.",
         "`not in` counts as one operator symbol; block-comment continuation-line indentation and trailing blanks are free, as the statement allows. Known-finding triggers excluded and counted.",
         "DESIGN.md 5 (C06)"),
 "C07": ("property-based testing: directive inserted before a tape-chosen node which is then uglified; verbatim oracle + metamorphic relation against the run with the directive neutralised; thorough tier: plus coverage-guided fuzzing (libFuzzer) of the same case space with the same oracle",
         "Exploration over position classes (markup level, code block statement, arguments, array/dict items, right-hand sides, closure bodies, math atoms); the set of disabled nodes is re-derived from the statement, not from typstyle's attribute store.",
         "Optional parentheses/braces that typstyle adds around the disabled node are not differences; text nodes that merge are compared as prefixes. Groups the statement is silent about (a further comment between directive and node) are not compared.",
         "DESIGN.md 5 (C07)"),
 "C08": ("property-based testing with prose-heavy generators at widths far below the line length; oracle = per-Markup-node word and SP/NL/PAR(n) sequence; thorough tier: plus coverage-guided fuzzing (libFuzzer) of the same case space with the same oracle",
         "Exploration: corpus + G1 Prose focus + G2 line joins/splits.",
         "Embedded code is an opaque marker; comments are dropped before comparison; outer edges of every markup node are free, as the statement allows.",
         "DESIGN.md 5 (C08)"),
 "C09": ("property-based testing with math-heavy generators; oracle = none/SP/NL class of every gap between atoms per Math/MathDelimited node, Equation::block(); thorough tier: plus coverage-guided fuzzing (libFuzzer) of the same case space with the same oracle",
         "Exploration: math fixtures + G1 Math focus + G2.",
         "Blanks that are direct children of Args/Array/Named/Spread/MathAttach/MathFrac/MathRoot are exempt structurally (the parser puts exactly the ignorable padding there).",
         "DESIGN.md 5 (C09)"),
 "C10": ("property-based testing with literal-dense generators; oracle = literal token sequence (Raw via block/lang/lines/fence); thorough tier: plus coverage-guided fuzzing (libFuzzer) of the same case space with the same oracle",
         "Exploration: corpus + G1 Literals focus + G2 literal mutations in nested/indented positions.",
         "Blanks at the end of interior lines of multi-line strings/raw (finding R1) are excluded by construction and counted.",
         "DESIGN.md 5 (C10)"),
 "C11": ("property-based testing incl. degenerate documents; oracle = validity predicate on the returned string; thorough tier: plus coverage-guided fuzzing (libFuzzer) of the same case space with the same oracle",
         "Exploration over the shared generators plus targeted degenerate documents (empty, blanks of every Unicode kind, comment/raw endings, missing final newline).",
         "Blank = char::is_whitespace; lines are split at LF (the only line break typstyle emits itself).",
         "DESIGN.md 5 (C11)"),
 "C12": ("property-based testing; oracle = proportionality of leading spaces across tab 1..8 at width 2^20 and multiples of the unit at the case's width; thorough tier: plus coverage-guided fuzzing (libFuzzer) of the same case space with the same oracle",
         "Exploration: corpus + G1 Breaks focus (layouts forced to break) + G2; 13 format calls per case.",
         "Continuation lines of comments, strings, raw text and disabled nodes are exempt (computed on the output).",
         "DESIGN.md 5 (C12)"),
 "C13": ("property-based testing over (source, byte range) pairs incl. erroneous sources and ranges past the end; oracle = node-boundary/cover/splice well-formed and N-equal, refusal on erroneous nodes, no panic; thorough tier: plus coverage-guided fuzzing (libFuzzer) of the same case space with the same oracle",
         "Exploration: ranges of every class (empty, whitespace-only, exact node, exact inner node, mid-token, whole, past the end; widths drawn below the length of the request) on corpus, generated and damaged sources; the sweep enumerates every pair of character boundaries of every corpus snippet up to 40 bytes (thorough: 160) -- exhaustive over that sub-space.",
         "A splice failure that whole-document formatting of the same text shows as well is left to C04/C01 (single-homing); the splice inherits the recorded C01 findings.",
         "DESIGN.md 5 (C13)"),
 "C14": ("model-based stateful property-based testing of the real CLI binary: generated file trees x check-mode invocation histories",
         "Exploration: every invocation's effect on the whole tree (bytes + mtime), stdout and exit status is compared with a model that uses the library in-process; flags on either side of the subcommand, -i combined with --check across command levels, CRLF / no-final-newline / trailing-blank spellings of formatted files, files and stdin texts of 8 - 300 kB full of multi-byte characters, file and directory names that are not valid UTF-8.",
         "format-all + non-UTF-8 eligible file: both exit codes accepted (the statement is silent). Root runs as root: unreadable = missing/dir/non-UTF-8/dangling symlink.",
         "DESIGN.md 5 (C14)"),
 "C15": ("model-based stateful property-based testing of the real CLI binary with injected read/write faults (immutable files via chattr +i)",
         "Exploration: in-place and format-all histories (trees as in C14, non-UTF-8 contents around formatted and unformatted text); exactly the eligible changed files hold exactly the formatted text, everything else keeps bytes and mtime, failures are isolated and reported.",
         "Same model as C14; write failures need chattr +i support (counted as skipped otherwise).",
         "DESIGN.md 5 (C15)"),
 "C16": ("differential property-based testing: CLI stdout / file contents vs the library call for the same options",
         "Exploration: option-sensitive documents (a call whose flat length is exactly column or column+1, unsorted imports, nesting) x column 0..400 x tab-width 0..16 x reorder x front-end (stdout one/several files, stdin, -i, format-all, and call sequences of the width-only convenience function); file contents incl. erroneous texts with and without final newline, CRLF/CR spellings, 8 - 300 kB multi-byte documents (files and stdin), names that are not valid UTF-8.",
         "The wasm artefact itself cannot be built here (no wasm32 target); pretty_print_wasm is a one-line delegate to format_with_width, which is what is tested (also in C05).",
         "DESIGN.md 5 (C16)"),
 "C17": ("history-differential property-based testing: job sets x repeated / interleaved / concurrent (2..16 threads) / cross-process histories vs fresh-process references",
         "Exploration: randomised stress; detects leaked state that changes an output (e.g. a cache keyed by Span: near-duplicate texts share span numbers); job sets also hold documents nested 20 - 260 deep (state that only a deep document leaves behind) and vary blank_lines_upper_bound; part of the jobs go through the width-only wrapper, a ladder of descending widths is walked in order, and one marathon case makes 140 000 (thorough 1 000 000) calls in one process.",
         "Thread interleavings are sampled, not enumerated.",
         "DESIGN.md 5 (C17)"),
 "C18": ("property-based testing over nesting families x depth with an instrumentation counter (hook): conversions <= 2*nodes + 8",
         "Exploration, deterministic oracle (no timing): 76 wrapper families (one per construct with alternative layouts) nested up to depth 32 (quick) / 100 (thorough) and random mixes.",
         "Counts typstyle's own conversion entry points only (hook --cfg typstyle_verif), not the external pretty renderer.",
         "DESIGN.md 5 (C18)"),
 "C19": ("property-based testing with import-heavy generators; oracle = off keeps order, on is a sorted permutation unless guarded, un-permuting on gives off byte for byte; thorough tier: plus coverage-guided fuzzing (libFuzzer) of the same case space with the same oracle",
         "Exploration: plain/renamed/nested/parenthesised/multi-line imports with comments and duplicate names, all widths.",
         "Sorted = non-decreasing by the item's printed text bytewise or case-insensitively (the statement only says sorted).",
         "DESIGN.md 5 (C19)"),
}

NOT_APPLICABLE = {
}

def main():
    props = [json.loads(l) for l in open(os.path.join(ROOT, "properties.jsonl"))]
    checks = []
    na = []
    for p in props:
        pid = p["id"]
        if pid in CLAIMED:
            tech, text, note, ref = CLAIMED[pid]
            checks.append({
                "property_id": pid,
                "quick_cmd": f"./check {pid} quick",
                "thorough_cmd": f"./check {pid} thorough",
                "evidence_file": f"evidence/{pid}.json",
                "replay_cmd_template": "./check --replay {path}",
                "engine": "vcheck",
                "level_claimed": {"category": "exploration", "text": text, "design_ref": ref},
                "level_note": note,
                "technique": tech,
            })
        else:
            na.append({"property_id": pid, "reason": NOT_APPLICABLE.get(pid, "check not built yet (work in progress; the technique applies, see DESIGN.md section 5)")})
    m = {
        "version": 1,
        "setup_cmd": "./check --setup",
        "hooks": {
            "guard": "--cfg typstyle_verif",
            "enable": "RUSTFLAGS=--cfg typstyle_verif via /verif/harness/.cargo/config.toml (cargo build --release --offline in /verif/harness; typstyle-core is a path dependency on /repo/crates/typstyle-core)",
            "baseline_off_cmd": "cd /repo && cargo nextest run --workspace --no-fail-fast --test-threads 8 --offline",
            "source_commits": ["da7ac76"],
            "add_only": True,
        },
        "engines": [{
            "name": "vcheck",
            "path": "harness/",
            "serves_properties": sorted(CLAIMED.keys()),
            "kind_free_text": ENGINE,
        }],
        "checks": checks,
        "notes": "All checks are ./check <ID> <tier>; they rebuild the harness against /repo's working tree first. Known findings: KNOWN_FINDINGS.txt; fix commits in /repo are listed there as `fixed:` lines.",
        "not_applicable": na,
    }
    json.dump(m, open(os.path.join(ROOT, "MANIFEST.json"), "w"), indent=1)
    print("claimed:", sorted(CLAIMED.keys()), "unclaimed:", [x["property_id"] for x in na])

main()
