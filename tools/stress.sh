#!/bin/bash
# tools/stress.sh <ID> <first-seed> <last-seed>  -- development aid: survey over many seeds, print distinct shrunk failures
cd "$(dirname "$0")/.."
ID=$1; A=$2; B=$3
OUT=harness/target/stress-$ID; rm -rf $OUT; mkdir -p $OUT
for s in $(seq $A $B); do
  VERIF_SEED=$s VERIF_SURVEY=1 harness/target/release/vcheck run $ID quick >/dev/null 2>&1
  mkdir -p $OUT/$s; cp harness/target/survey/$ID/*.json $OUT/$s/ 2>/dev/null
done
python3 - $OUT <<'PY'
import json,glob,sys
seen={}
for f in sorted(glob.glob(sys.argv[1]+'/*/*.json')):
    v=json.load(open(f)); c=v['case']
    key=json.dumps(c,sort_keys=True)
    if key in seen: continue
    seen[key]=1
    src=c.get('src'); extra={k:v for k,v in c.items() if k not in ('src','origin')}
    print(repr(src)[:300] if src is not None else json.dumps(c)[:300], json.dumps(extra), '|', v['sig'], '|', v['detail'][:160].replace('\n',' '))
print(len(seen),'distinct failing cases')
PY
